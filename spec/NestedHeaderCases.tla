------------------------- MODULE NestedHeaderCases -------------------------
(***************************************************************************)
(* get_headers over REAL header shapes (C14, "built-in header shapes"):    *)
(* for every pair <<header expression, follow-up expression>> that a       *)
(* language hands to scope_utils.get_headers - automata and predicate      *)
(* tables extracted from the running code over ONE class alphabet per      *)
(* pair (the common refinement of both automata's quotients) - every       *)
(* token-class sequence up to MaxLen, with the headers the recursive       *)
(* definition yields as ghost v:                                           *)
(*   candidates  = HSearch (leftmost greedy search with the header         *)
(*                 automaton, FindAll.tla / HeaderCases.tla)               *)
(*   a candidate followed by a body (starts_with of the follow-up          *)
(*   automaton on the rest of the WHOLE sequence) is a header; one that    *)
(*   is not is searched again from its second token to its end             *)
(*   (NestedSearch.tla establishes that the coded stack loop computes      *)
(*   exactly this).                                                        *)
(* Parenthesis groups nest, so here a call inside a call inside a call     *)
(* occurs within a few tokens - the depth the letter model of NestedCases  *)
(* cannot reach.  Replayed with concrete tokens into the real get_headers. *)
(***************************************************************************)
EXTENDS AutomatonSem
CONSTANT MaxLen
VARIABLES pr, w, v, amb, deep
nvars == <<pr, w, v, amb, deep>>

Sub(u, s, e) == SubSeq(u, s + 1, e)
(* matcher.starts_with: consume while exactly one transition is enabled, succeed at the first accepting state *)
RECURSIVE SWFrom(_, _, _, _, _)
SWFrom(a, u, e, s, dd) ==
  IF e >= Len(u) THEN FALSE
  ELSE LET en == EnabledSet(a, s, dd, u[e + 1]) IN
       IF Cardinality(en) # 1 THEN FALSE
       ELSE LET t == CHOOSE t \in en : TRUE IN
            IF t[3] \in AAccepting[a] THEN TRUE ELSE SWFrom(a, u, e + 1, t[3], TLCEval(NextD(a, s, dd, u[e + 1])))
FollowedOK(b, u, e) == IF b = 0 THEN TRUE ELSE SWFrom(b, Sub(u, e, Len(u)), 0, AStart[b], Depth0(b))
RECURSIVE SWAmb(_, _, _, _, _)
SWAmb(a, u, e, s, dd) ==
  IF e >= Len(u) THEN FALSE
  ELSE LET en == EnabledSet(a, s, dd, u[e + 1]) IN
       IF Cardinality(en) > 1 THEN TRUE ELSE IF Cardinality(en) = 0 THEN FALSE
       ELSE LET t == CHOOSE t \in en : TRUE IN
            IF t[3] \in AAccepting[a] THEN FALSE ELSE SWAmb(a, u, e + 1, t[3], TLCEval(NextD(a, s, dd, u[e + 1])))

Shift(ms, d) == [ i \in 1..Len(ms) |-> <<ms[i][1] + d, ms[i][2] + d>> ]
FindIn(a, u, lo, hi) == Shift(HSearch(a, Sub(u, lo, hi)), lo)
RECURSIVE Hdr(_, _, _, _, _)
Hdr(a, b, u, lo, hi) == LET ms == TLCEval(FindIn(a, u, lo, hi)) IN
  UNION { IF FollowedOK(b, u, ms[i][2]) THEN {ms[i]}
          ELSE IF ms[i][2] - ms[i][1] > 1 THEN Hdr(a, b, u, ms[i][1] + 1, ms[i][2]) ELSE {} : i \in 1..Len(ms) }
(* nesting depth of the search that finds the deepest header (0 = a top-level candidate) *)
RECURSIVE Deep(_, _, _, _, _)
Deep(a, b, u, lo, hi) == LET ms == TLCEval(FindIn(a, u, lo, hi))
                             ds == { IF FollowedOK(b, u, ms[i][2]) \/ ms[i][2] - ms[i][1] <= 1 THEN 0
                                     ELSE IF Hdr(a, b, u, ms[i][1] + 1, ms[i][2]) = {} THEN 0
                                     ELSE 1 + Deep(a, b, u, ms[i][1] + 1, ms[i][2]) : i \in 1..Len(ms) }
                         IN  IF ds = {} THEN 0 ELSE CHOOSE d \in ds : \A x \in ds : x <= d
RECURSIVE SortByStart(_)
SortByStart(S) == IF S = {} THEN <<>>
                  ELSE LET m == CHOOSE m \in S : \A o \in S : m[1] <= o[1] IN <<m>> \o SortByStart(S \ {m})
(* ambiguity anywhere (an attempt of either automaton meets two enabled transitions) is C15's subject *)
AnyAmb(a, b, u) == AnyAmbiguous(a, u) \/ (b # 0 /\ \E e \in 0..Len(u) : SWAmb(b, Sub(u, e, Len(u)), 0, AStart[b], Depth0(b)))

NInit == /\ pr \in 1..Len(APairs) /\ w = <<>> /\ v = <<>> /\ amb = FALSE /\ deep = 0
NNext == /\ Len(w) < MaxLen
         /\ \E c \in ARealistic[APairs[pr][1]] : w' = Append(w, c)
         /\ v' = SortByStart(Hdr(APairs[pr][1], APairs[pr][2], w', 0, Len(w')))
         /\ deep' = Deep(APairs[pr][1], APairs[pr][2], w', 0, Len(w'))
         /\ amb' = AnyAmb(APairs[pr][1], APairs[pr][2], w')
         /\ pr' = pr
NSpec == NInit /\ [][NNext]_nvars

(* Directed family: calls nested D deep - n ( n ( .. ) [b] ) [b] - each closing parenthesis optionally followed by  *)
(* the body opener, behind 0..2 other tokens, 0 or 3 other tokens after each (, cut short by 0..MaxCut tokens.  This is where a    *)
(* header sits two and three searches deep; exhaustive enumeration reaches such sequences only beyond 8 tokens.  *)
(* For these long sequences the ghost is computed by the stack loop of NestedSearch.tla, one search per step     *)
(* (NestedSearch's HIsRef: the loop computes the recursive definition) - TLC re-evaluates LET definitions inside  *)
(* recursive operators, so the recursion above is exponential in the nesting depth.                              *)
CONSTANTS MaxNest, MaxCut
Lead(sh, k) == [ i \in 1..k |-> sh.x ]
RECURSIVE Nest(_, _, _, _)
Nest(sh, d, bs, pad) == IF d = 0 THEN <<>>      \* pad other tokens in front of each inner call: the header sits late in its range
                        ELSE <<sh.n, sh.o>> \o Lead(sh, pad) \o Nest(sh, d - 1, bs, pad) \o <<sh.c>> \o (IF bs[d] /\ sh.b # 0 THEN <<sh.b>> ELSE <<>>)
Directed(p) == LET sh == AShape[p] IN
  UNION { UNION { { LET full == Lead(sh, k) \o Nest(sh, d, bs, pad) IN SubSeq(full, 1, Len(full) - cut) : cut \in 0..MaxCut, k \in 0..2, pad \in {0, 3} }
                  : bs \in [1..d -> BOOLEAN] } : d \in 1..MaxNest }
VARIABLES ranges, pend, pd, result, phase
dvars == <<pr, w, v, amb, deep, ranges, pend, pd, result, phase>>
DInit == /\ pr \in 1..Len(APairs)
         /\ w \in Directed(pr)
         /\ v = <<>> /\ deep = 0 /\ amb = AnyAmb(APairs[pr][1], APairs[pr][2], w)
         /\ ranges = << <<0, Len(w), 0>> >> /\ pend = <<>> /\ pd = 0 /\ result = {} /\ phase = "pop"
DPop == /\ phase = "pop" /\ ranges # <<>>
        /\ LET top == ranges[Len(ranges)] IN
             /\ pend' = FindIn(APairs[pr][1], w, top[1], top[2]) /\ pd' = top[3]
             /\ ranges' = SubSeq(ranges, 1, Len(ranges) - 1)
        /\ phase' = "judge" /\ UNCHANGED <<pr, w, v, amb, deep, result>>
DJudge == /\ phase = "judge" /\ pend # <<>>
          /\ LET m == Head(pend) IN
               IF FollowedOK(APairs[pr][2], w, m[2])
               THEN result' = result \cup {m} /\ deep' = (IF pd > deep THEN pd ELSE deep) /\ UNCHANGED ranges
               ELSE /\ ranges' = IF m[2] - m[1] > 1 THEN Append(ranges, <<m[1] + 1, m[2], pd + 1>>) ELSE ranges
                    /\ UNCHANGED <<result, deep>>
          /\ pend' = Tail(pend) /\ UNCHANGED <<pr, w, v, amb, pd, phase>>
DEnd == /\ phase = "judge" /\ pend = <<>> /\ phase' = "pop"
        /\ UNCHANGED <<pr, w, v, amb, deep, ranges, pend, pd, result>>
DFinish == /\ phase = "pop" /\ ranges = <<>> /\ v' = SortByStart(result) /\ phase' = "done"
           /\ UNCHANGED <<pr, w, amb, deep, ranges, pend, pd, result>>
DSpec == DInit /\ [][DPop \/ DJudge \/ DEnd \/ DFinish]_dvars
(* the exhaustive family leaves the loop variables alone *)
NInitAll == NInit /\ ranges = <<>> /\ pend = <<>> /\ pd = 0 /\ result = {} /\ phase = "done"
NSpecAll == NInitAll /\ [][NNext /\ UNCHANGED <<ranges, pend, pd, result, phase>>]_dvars

(* sanity of the ghost *)
VInBounds == phase = "done" => \A i \in 1..Len(v) : 0 <= v[i][1] /\ v[i][1] < v[i][2] /\ v[i][2] <= Len(w)
VDisjoint == phase = "done" => \A i \in 1..(Len(v) - 1) : v[i][2] <= v[i + 1][1]
VFollowed == phase = "done" => \A i \in 1..Len(v) : FollowedOK(APairs[pr][2], w, v[i][2])
=============================================================================
