------------------------------ MODULE FindAll ------------------------------
(***************************************************************************)
(* Implementation-shaped model of matcher.find_all as coded (after the     *)
(* `fix:` commit d7bef04): a scan position, one attempt at a time,         *)
(* leftmost first.                                                         *)
(*   StartAttempt   Pattern(idx, dfa)                                      *)
(*   Consume        pattern.consume(sequence[end]) succeeded               *)
(*   Commit         the attempt stopped in an accepting state -> a match,  *)
(*                  scanning resumes just past it                          *)
(*   Abandon        it stopped elsewhere -> scanning resumes at idx + 1    *)
(*   Done           idx reached the end of the sequence                    *)
(* Abstraction: the DFA state of an attempt is represented by the consumed *)
(* slice; "a transition exists" is Viable, "accepting" is InL (established *)
(* by Thompson.tla: DfaAliveOK, MatchOK).                                  *)
(* TLC checks every clause of C14 on the result: Sound, Longest, Ordered,  *)
(* Covers, and IsRef (the result IS the reference search).                 *)
(* The earlier parallel-attempt algorithm, whose eviction defect (finding  *)
(* F10-C14, repaired) TLC exhibits, is kept in FindAllParallel.tla.        *)
(***************************************************************************)
EXTENDS Regex, TLC
CONSTANTS Sigma, MaxSize, MaxLen

VARIABLES re, w, idx, end, phase, matches
vars == <<re, w, idx, end, phase, matches>>

Words == UNION { [1..n -> Sigma] : n \in 0..MaxLen }

Init == /\ re \in { r \in AllAST(Sigma, MaxSize) : ~Nullable(r) }
        /\ w \in Words
        /\ idx = 0 /\ end = 0 /\ phase = "scan" /\ matches = <<>>

StartAttempt == /\ phase = "scan" /\ idx < Len(w)
                /\ phase' = "attempt" /\ end' = idx
                /\ UNCHANGED <<re, w, idx, matches>>
Consume == /\ phase = "attempt" /\ end < Len(w) /\ Viable(re, Sub(w, idx, end + 1))
           /\ end' = end + 1
           /\ UNCHANGED <<re, w, idx, phase, matches>>
Stopped == phase = "attempt" /\ (IF end = Len(w) THEN TRUE ELSE ~Viable(re, Sub(w, idx, end + 1)))
Commit  == /\ Stopped /\ InL(re, Sub(w, idx, end))
           /\ matches' = Append(matches, <<idx, end>>)
           /\ idx' = IF end > idx THEN end ELSE idx + 1
           /\ phase' = "scan"
           /\ UNCHANGED <<re, w, end>>
Abandon == /\ Stopped /\ ~InL(re, Sub(w, idx, end))
           /\ idx' = idx + 1 /\ phase' = "scan"
           /\ UNCHANGED <<re, w, end, matches>>
Done == /\ phase = "scan" /\ idx >= Len(w) /\ phase' = "done"
        /\ UNCHANGED <<re, w, idx, end, matches>>
Next == StartAttempt \/ Consume \/ Commit \/ Abandon \/ Done
Spec == Init /\ [][Next]_vars

(* C14, clause by clause, on the result *)
Finished == phase = "done"
Sound    == Finished => InBounds(w, matches) /\ AreWords(re, w, matches)
Longest  == Finished => AreLongest(re, w, matches)
Ordered  == Finished => OrderedDisjoint(matches)
Covers   == Finished => Complete(re, w, matches)
IsRef    == Finished => matches = SearchRef(re, w)
(* while running: committed matches never extend past the scan position *)
Progress == \A k \in 1..Len(matches) : matches[k][2] <= idx
=============================================================================
