----------------------------- MODULE Selection -----------------------------
(***************************************************************************)
(* C11 / C12 - which files contribute to a scan, and which files `check`   *)
(* must look at.                                                           *)
(*                                                                         *)
(* A name is a pair <<stem, ext>> ("m.py" = <<"m", "py">>, "tests" =        *)
(* <<"tests", "">>, ".hid" = <<".hid", "">>); a path is a sequence of       *)
(* names, the last one being the file.  The universe U is every path with  *)
(* up to MaxDepth directory components over DirNames and a file name from  *)
(* FileNames (a name that is in both pools is a directory in parents of    *)
(* even depth and a file in parents of odd depth).                         *)
(*                                                                         *)
(* Exclusion patterns come in the five unambiguous gitignore classes:      *)
(*   [cls |-> "bare", a]   `name`    a component named a, at any level     *)
(*   [cls |-> "dir",  a]   `name/`   a DIRECTORY component named a         *)
(*   [cls |-> "ext",  a]   `*.a`     a component whose extension is a      *)
(*   [cls |-> "anch", a, b]  `a/b`   the path starts with a, b             *)
(*   [cls |-> "star", a]   `a/*`     anything directly or deeper under a   *)
(* (semantics cross-checked against pathspec by vf/props/c11.py at run     *)
(* time on the universe itself).                                           *)
(*                                                                         *)
(* A configuration chooses a list of at most two patterns, the source of   *)
(* each (config file, --exclude option, root .gitignore) and the form in   *)
(* which the root is given; the ghost sel is the set of contributing       *)
(* paths.  For C12 a configuration also chooses how `check` is pointed at  *)
(* the tree; reach is the set of files it must check.                      *)
(***************************************************************************)
EXTENDS Naturals, Sequences, FiniteSets, TLC

CONSTANTS DirNames, FileNames, MaxDepth,
          HiddenNames,       \* names starting with a dot
          DefaultExcludes,   \* the built-in bare-name exclusions that occur in the pools
          Supported,         \* extensions that map to a supported language
          SupportedNames,    \* whole file names (no extension) that map to a supported language, e.g. SConstruct
          Patterns,          \* the pattern pool
          MaxPatterns, Sources, RootForms,
          CheckTargets,      \* {"none"} or the set of targets `check` is pointed at (abstract classes or concrete)
          ComputeSel         \* BOOLEAN: carry the ghost set of contributing paths (C11) or not (C12: the acceptor computes it)

Front(s) == SubSeq(s, 1, Len(s) - 1)
Last(s) == s[Len(s)]
Both == DirNames \cap FileNames
IsDirIn(parent, n) == n \in DirNames /\ (n \in Both => Len(parent) % 2 = 0)
IsFileIn(parent, n) == n \in FileNames /\ (n \in Both => Len(parent) % 2 = 1)
RECURSIVE DirsOfDepth(_)
DirsOfDepth(d) == IF d = 0 THEN { <<>> }
                  ELSE { Append(p, n) : p \in DirsOfDepth(d - 1), n \in DirNames } 
ValidDir(p) == \A i \in 1..Len(p) : IsDirIn(SubSeq(p, 1, i - 1), p[i])
Dirs == { p \in UNION { DirsOfDepth(d) : d \in 0..MaxDepth } : ValidDir(p) }
U == UNION { { Append(d, f) : f \in { x \in FileNames : IsFileIn(d, x) } } : d \in Dirs }

(* ---- reference ---- *)
Hidden(path) == \E i \in 1..Len(path) : path[i] \in HiddenNames
Matches(pat, path) ==
  CASE pat.cls = "bare" -> \E i \in 1..Len(path) : path[i] = pat.a
    [] pat.cls = "dir"  -> \E i \in 1..(Len(path) - 1) : path[i] = pat.a
    [] pat.cls = "ext"  -> \E i \in 1..Len(path) : path[i][2] = pat.a
    [] pat.cls = "anch" -> Len(path) >= 2 /\ path[1] = pat.a /\ path[2] = pat.b
    [] pat.cls = "star" -> Len(path) >= 2 /\ path[1] = pat.a
DefaultPats == { [cls |-> "bare", a |-> n] : n \in DefaultExcludes }
Excluded(path, pats) == \E pat \in DefaultPats \cup pats : Matches(pat, path)
SupportedFile(path) == Last(path)[2] \in Supported \/ Last(path) \in SupportedNames
Contributes(path, pats) == ~Hidden(path) /\ ~Excluded(path, pats) /\ SupportedFile(path)
Selected(pats) == { p \in U : Contributes(p, pats) }
IsPrefix(d, p) == Len(d) < Len(p) /\ SubSeq(p, 1, Len(d)) = d
(* what `check <directory d>` must look at: contributing files beneath d (hidden or excluded ones never) *)
ReachDir(d, pats) == { p \in Selected(pats) : IsPrefix(d, p) }
(* what `check <relative file f>` must look at: f itself unless excluded or unsupported; a hidden file named *)
(* directly is unconstrained (MayCheck) *)
MustCheckFile(f, pats) == f \in U /\ ~Excluded(f, pats) /\ SupportedFile(f) /\ ~Hidden(f)
MustSkipFile(f, pats) == Excluded(f, pats) \/ ~SupportedFile(f)

VARIABLES pats, src, rootForm, target, sel
vars == <<pats, src, rootForm, target, sel>>
PatSet(ps) == { ps[i] : i \in 1..Len(ps) }
(* two steps: ChoosePatterns fixes the exclusion list (and the ghost set, computed once per list),      *)
(* Configure chooses where each pattern is written, how the root is named and what check is pointed at *)
Init == /\ pats \in UNION { [1..n -> Patterns] : n \in 0..MaxPatterns }
        /\ (Len(pats) = 2 => pats[1] # pats[2])
        /\ src = <<>> /\ rootForm = "unset" /\ target = "unset"
        /\ sel = IF ComputeSel THEN Selected(PatSet(pats)) ELSE {}
Configure == /\ rootForm = "unset"
             /\ src' \in [1..Len(pats) -> Sources]
             /\ rootForm' \in RootForms
             /\ target' \in CheckTargets
             /\ UNCHANGED <<pats, sel>>
Next == Configure
Spec == Init /\ [][Next]_vars

(* sanity of the reference *)
SelIsSubsetOfU == sel \subseteq U
HiddenNeverSelected == \A p \in sel : ~Hidden(p)
DefaultsNeverSelected == \A p \in sel : \A i \in 1..Len(p) : p[i] \notin DefaultExcludes
MorePatternsSelectLess == ComputeSel => sel \subseteq Selected({})
=============================================================================
