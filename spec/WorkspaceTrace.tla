-------------------------- MODULE WorkspaceTrace --------------------------
(***************************************************************************)
(* Acceptor (role A) for C09 / C10: steps of real command executions on a  *)
(* real directory, each logged with the projected abstract state before    *)
(* and after it (vf/workspace.py: abstraction function).  Event:           *)
(*  {id, op: <<name, args..>>, pre, post, exc}  with states               *)
(*  [fs, excl, cache, report, reused, outcome, complete] shaped as in      *)
(*  Workspace.tla; complete = the cache file left behind is the whole      *)
(*  document a from-scratch scan would write, up to identifier / timestamp *)
(*  (cache.ent / fs / report are records keyed by the path names).         *)
(* The step predicates are the PROPERTIES of Workspace.tla evaluated on    *)
(* the logged pair - so a scan that re-analyses more than necessary is     *)
(* accepted, a scan that reuses what it must not is rejected.              *)
(***************************************************************************)
EXTENDS Workspace, Json, IOUtils

Calls == ndJsonDeserialize(IOEnv.TRACE_FILE)
VARIABLE i

ExclSet(s) == { s.excl[k] : k \in 1..Len(s.excl) }
ReusedSet(s) == { s.reused[k] : k \in 1..Len(s.reused) }
ContribOf(s) == { p \in Paths : s.fs[p] # Absent /\ p \notin ExclSet(s) }
FreshOf(s) == [ p \in Paths |-> IF p \in ContribOf(s) THEN Res(s.fs[p]) ELSE Absent ]
HonestCache(s) == s.cache.kind = "ok" => s.cache.honest
ValidToolCache(s) == s.cache.kind = "ok" /\ s.cache.ver = Tool

ScanClause(pre, post) ==
  CASE post.outcome # "ok" -> "ScanCompletes"
    [] ~ValidToolCache(post) -> "ScanLeavesValidCache"
    [] \E p \in Paths : (post.cache.ent[p].sum # Absent) # (p \in ContribOf(pre)) -> "CacheListsExactlyTheContributingFiles"
    [] \E p \in ContribOf(pre) : post.cache.ent[p].sum # pre.fs[p] -> "CacheChecksumsAreTheFilesChecksums"
    [] \E p \in ReusedSet(post) : ~(ValidToolCache(pre) /\ pre.cache.ent[p].sum = pre.fs[p] /\ pre.fs[p] # Absent) -> "ReuseOnlyIfUnchangedAndSameVersion"
    [] (HonestCache(pre) \/ pre.cache.kind \in {"damaged", "none"}) /\ ~post.complete -> "CacheLeftBehindIsTheCompleteReport"
    [] HonestCache(pre) /\ \E p \in Paths : post.report[p] # FreshOf(pre)[p] -> "CachedScanEqualsFreshScan"
    [] pre.cache.kind \in {"damaged", "none"} /\ \E p \in Paths : post.report[p] # FreshOf(pre)[p] -> "DamagedCacheNeverTaintsTheScan"
    [] OTHER -> "none"
ShowClause(pre, post) ==
  CASE pre.cache.kind = "ok" /\ pre.cache.ver # Tool /\ post.outcome # "refused" -> "RefuseReportOfAnotherVersion"
    [] pre.cache.kind = "ok" /\ pre.cache.ver = Tool /\ post.outcome # "ok" -> "ShowOwnReport"
    [] OTHER -> "none"
Clause(c) ==
  CASE c.op[1] = "Scan" -> IF c.exc # "" THEN "ScanCompletes" ELSE ScanClause(c.pre, c.post)
    [] c.op[1] \in {"Report", "Findings"} -> IF c.exc # "" /\ c.pre.cache.kind # "damaged" THEN "NormalReturn" ELSE ShowClause(c.pre, c.post)
    [] OTHER -> IF c.exc # "" THEN "HarnessStep" ELSE "none"

TInit == i = 1 /\ Init
TNext == /\ i <= Len(Calls)
         /\ LET cl == Clause(Calls[i]) IN
              IF cl = "none" THEN TRUE ELSE PrintT(<<"REJECT", Calls[i].id, cl>>)
         /\ i' = i + 1 /\ UNCHANGED vars
TSpec == TInit /\ [][TNext]_<<i, fs, excl, cache, report, reused, outcome, hist>>
AllConsumed == TLCGet("stats").diameter - 1 = Len(Calls)
=============================================================================
