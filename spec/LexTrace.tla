----------------------------- MODULE LexTrace -----------------------------
(***************************************************************************)
(* Acceptor (role A) for C16 on real lexers and real text.  One event per  *)
(* (text, language, keep) with, for every token that lex() returned        *)
(* (matched by the harness to the raw Pygments stream by position):        *)
(*   off, len      offset and length of the raw token it corresponds to    *)
(*   nlb, lnl      number of newlines before off / offset of the last one  *)
(*                 (-1 if none) - read off the raw text by the harness,    *)
(*                 the facts TLC cannot see                                *)
(*   line, col     what codelimit reported                                 *)
(*   cls, blank    class of the token's type, and whether its text is      *)
(*                 empty or all whitespace                                 *)
(*   same          the text at [off, off+len) equals the token's value     *)
(* plus expected / returned token counts.                                  *)
(***************************************************************************)
EXTENDS Naturals, Integers, Sequences, TLC, Json, IOUtils

Calls == ndJsonDeserialize(IOEnv.TRACE_FILE)
VARIABLE i

Clause(c) ==
  LET t == c.toks  n == Len(c.toks) IN
  CASE c.exc # "" -> "NormalReturn"
    [] c.returned # c.expected -> "ExactlyTheCodeAndRequestedCommentTokensAreKept"
    [] \E k \in 1..n : t[k].line # t[k].nlb + 1 -> "LineFaithful"
    [] \E k \in 1..n : t[k].col # t[k].off - t[k].lnl -> "ColumnFaithful"
    [] \E k \in 1..n : ~t[k].same -> "TextAtLocation"
    [] \E k \in 1..(n - 1) : t[k + 1].off <= t[k].off -> "StrictlyIncreasing"
    [] \E k \in 1..(n - 1) : t[k + 1].off < t[k].off + t[k].len -> "NoOverlap"
    [] \E k \in 1..n : t[k].cls = "text" /\ t[k].blank -> "NoWhitespaceKept"
    [] \E k \in 1..n : t[k].cls = "comment" /\ ~c.keep -> "CommentsOnlyWhenRequested"
    [] OTHER -> "none"

Init == i = 1
Next == /\ i <= Len(Calls)
        /\ LET cl == Clause(Calls[i]) IN
             IF cl = "none" THEN TRUE ELSE PrintT(<<"REJECT", Calls[i].id, cl>>)
        /\ i' = i + 1
Spec == Init /\ [][Next]_i
AllConsumed == TLCGet("stats").diameter - 1 = Len(Calls)
=============================================================================
