------------------------------- MODULE Scopes -------------------------------
(***************************************************************************)
(* Implementation-shaped model of codelimit/common/scope/scope_utils.py    *)
(* (after the `fix:` commits): how headers and blocks - ranges of token    *)
(* indices, half-open - are paired into scopes, nested and measured.       *)
(*   NearestBlock           _get_nearest_block                              *)
(*   ScopeBlockIndices      _find_scope_blocks_indices (contains / overlaps *)
(*                          minus an enclosing block that shares the end)   *)
(*   BuildScopes            _build_scopes_from_headers_and_blocks: headers  *)
(*                          from the last to the first, consumed blocks     *)
(*                          deleted                                         *)
(*   Fold                   fold_scopes (nest at every depth)               *)
(*   OwnTokens / CountLines _scope_tokens / count_lines                     *)
(* A brace-language token stream is abstracted to a sequence over           *)
(*   "h" a header (name + parameter list, one abstract token)               *)
(*   "{" "}" block delimiters     "x" any other token     "n" line break    *)
(* TLC enumerates every such sequence up to MaxLen; for the well-formed     *)
(* ones (balanced, every header directly followed by "{") the model must    *)
(* agree with the reference reading: a header owns the block it is          *)
(* followed by, scopes nest as their blocks do, own length = lines with a   *)
(* token of the scope outside nested scopes.  For ALL sequences the result  *)
(* must be well formed (C05's clauses on the abstraction).                  *)
(* vf/props/c01.py records the real build_scopes intermediates on real      *)
(* token streams; ScopesTrace.tla recomputes them with these operators      *)
(* (a difference there is model drift, not a verdict).                      *)
(***************************************************************************)
EXTENDS Naturals, Sequences, FiniteSets, TLC

CONSTANTS MaxLen

Alphabet == {"h", "{", "}", "x", "n"}
(* ---- ranges ---- *)
R(s, e) == [s |-> s, e |-> e]
Contains(a, b) == a.s < b.s /\ a.e > b.e                                       \* TokenRange.contains
Overlaps(a, b) == (a.s <= b.s /\ b.s <= a.e) \/ (a.s <= b.e /\ b.e <= a.e)     \* TokenRange.overlaps

(* ---- from an abstract token sequence (indices 0-based: token i is w[i+1], line breaks are not tokens) ---- *)
Toks(w) == SelectSeq(w, LAMBDA c : c # "n")
RECURSIVE LineOfTok(_, _, _, _)
(* line (1-based) of the k-th token (0-based) of w *)
LineOfTok(w, k, i, seen) == IF w[i] = "n" THEN LineOfTok(w, k, i + 1, seen)
                            ELSE IF seen = k THEN 1 + Cardinality({ j \in 1..(i - 1) : w[j] = "n" })
                            ELSE LineOfTok(w, k, i + 1, seen + 1)
Line(w, k) == LineOfTok(w, k, 1, 0)
Headers(t) == [ i \in 1..Len(SelectSeq([j \in 1..Len(t) |-> j], LAMBDA j : t[j] = "h")) |->
                  LET j == SelectSeq([q \in 1..Len(t) |-> q], LAMBDA q : t[q] = "h")[i] IN R(j - 1, j) ]
(* get_blocks: balanced pairs, unmatched closers ignored, sorted by start *)
RECURSIVE BlockScan(_, _, _, _)
BlockScan(t, i, stack, acc) ==
  IF i > Len(t) THEN acc
  ELSE IF t[i] = "{" THEN BlockScan(t, i + 1, Append(stack, i - 1), acc)
  ELSE IF t[i] = "}" /\ stack # <<>> THEN BlockScan(t, i + 1, SubSeq(stack, 1, Len(stack) - 1), acc \cup {R(stack[Len(stack)], i)})
  ELSE BlockScan(t, i + 1, stack, acc)
RECURSIVE SortByStart(_)
SortByStart(S) == IF S = {} THEN <<>> ELSE LET m == CHOOSE x \in S : \A y \in S : x.s <= y.s IN <<m>> \o SortByStart(S \ {m})
Blocks(t) == SortByStart(BlockScan(t, 1, <<>>, {}))

(* ---- the algorithm ---- *)
RECURSIVE NearestFrom(_, _, _, _)
NearestFrom(h, bl, i, result) ==       \* i runs from Len(bl) down to 1
  IF i = 0 THEN result
  ELSE IF Contains(bl[i], h) THEN (IF result = <<>> THEN <<bl[i]>> ELSE result)
  ELSE IF bl[i].s >= h.e THEN NearestFrom(h, bl, i - 1, <<bl[i]>>)
  ELSE IF bl[i].s < h.s THEN result
  ELSE NearestFrom(h, bl, i - 1, result)
NearestBlock(h, bl) == NearestFrom(h, bl, Len(bl), <<>>)                       \* <<>> or <<block>>
Encloses(b, body) == b.s < body.s /\ body.e <= b.e
ScopeBlockIndices(h, bl) ==
  LET nb == NearestBlock(h, bl) IN
  IF nb = <<>> THEN {}
  ELSE LET body == nb[1] IN
       IF Contains(body, h) THEN { i \in 1..Len(bl) : Contains(body, bl[i]) }
       ELSE { i \in 1..Len(bl) : Overlaps(body, bl[i]) /\ ~Encloses(bl[i], body) }
DeleteIdx(bl, I) == SelectSeq([i \in 1..Len(bl) |-> <<i, bl[i]>>], LAMBDA p : p[1] \notin I)
Strip(ps) == [i \in 1..Len(ps) |-> ps[i][2]]
MinS(bl, I) == CHOOSE v \in { bl[i].s : i \in I } : \A i \in I : v <= bl[i].s
MaxE(bl, I) == CHOOSE v \in { bl[i].e : i \in I } : \A i \in I : v >= bl[i].e
RECURSIVE BuildFrom(_, _, _, _)
BuildFrom(hs, k, bl, acc) ==           \* headers from the last (k = Len(hs)) to the first
  IF k = 0 THEN acc
  ELSE LET I == ScopeBlockIndices(hs[k], bl) IN
       IF I = {} THEN BuildFrom(hs, k - 1, bl, acc)
       ELSE BuildFrom(hs, k - 1, Strip(DeleteIdx(bl, I)), <<[h |-> hs[k], b |-> R(MinS(bl, I), MaxE(bl, I))]>> \o acc)
BuildScopes(hs, bl) == BuildFrom(hs, Len(hs), bl, <<>>)                        \* in source order
ScopeContains(a, b) == a.h.s < b.h.s /\ a.b.e >= b.b.e                         \* Scope.contains
(* fold_scopes: parent[i] = index of the innermost earlier scope that contains scope i, 0 if none *)
ParentOf(sc, i) == LET c == { j \in 1..(i - 1) : ScopeContains(sc[j], sc[i]) } IN
                   IF c = {} THEN 0 ELSE CHOOSE j \in c : \A q \in c : q <= j
Span(s) == R(s.h.s, s.b.e)
ChildrenOf(sc, i) == { j \in 1..Len(sc) : ParentOf(sc, j) = i }
(* _scope_tokens: the tokens of the scope outside the spans of its direct children *)
OwnTokens(sc, i) == { k \in sc[i].h.s..(sc[i].b.e - 1) : \A j \in ChildrenOf(sc, i) : ~(sc[j].h.s <= k /\ k < sc[j].b.e) }
CountLines(w, sc, i) == Cardinality({ Line(w, k) : k \in OwnTokens(sc, i) })
CountLinesFn(lineOf, sc, i) == Cardinality({ lineOf[k + 1] : k \in OwnTokens(sc, i) })      \* lineOf: sequence, one line per token

(* ---- the state machine: every abstract token sequence ---- *)
VARIABLES w, scopes
vars == <<w, scopes>>
Result(u) == BuildScopes(Headers(Toks(u)), Blocks(Toks(u)))
Init == w = <<>> /\ scopes = <<>>
Next == /\ Len(w) < MaxLen
        /\ \E c \in Alphabet : w' = Append(w, c)
        /\ scopes' = Result(w')
Spec == Init /\ [][Next]_vars

(* ---- properties ---- *)
NT == Len(Toks(w))
WellFormedResult ==
  \* (on malformed input the paired block may begin before the header, e.g. `{ h } { }`: only the span matters)
  /\ \A i \in 1..Len(scopes) : 0 <= scopes[i].h.s /\ scopes[i].h.s < scopes[i].b.e /\ scopes[i].b.s < scopes[i].b.e /\ scopes[i].b.e <= NT
  /\ \A i \in 1..(Len(scopes) - 1) : scopes[i].h.s < scopes[i + 1].h.s                 \* source order, distinct starts
  /\ \A i \in 1..Len(scopes) : Toks(w)[scopes[i].b.e] = "}" /\ Toks(w)[scopes[i].b.s + 1] = "{"
LengthBoundsHold == \A i \in 1..Len(scopes) : CountLines(w, scopes, i) >= 1
                                               /\ CountLines(w, scopes, i) <= Line(w, scopes[i].b.e - 1) - Line(w, scopes[i].h.s) + 1
(* reference reading for well-formed programs: balanced braces, every header directly followed by "{" *)
Balanced(t) == LET bs == Blocks(t) IN Cardinality({ i \in 1..Len(t) : t[i] \in {"{", "}"} }) = 2 * Len(bs)
HeadersHaveBodies(t) == \A i \in 1..Len(t) : t[i] = "h" => (i < Len(t) /\ t[i + 1] = "{")
(* no free-standing block: every "{" follows a header or another token (`if (a) {`, `class K {`, `} else {`) *)
BlocksAreIntroduced(t) == \A i \in 1..Len(t) : t[i] = "{" => (i > 1 /\ t[i - 1] \in {"h", "x"})
Canonical(t) == Balanced(t) /\ HeadersHaveBodies(t) /\ BlocksAreIntroduced(t)
BlockAt(t, s) == CHOOSE b \in { Blocks(t)[i] : i \in 1..Len(Blocks(t)) } : b.s = s
CanonicalResultIsTheObviousOne ==
  Canonical(Toks(w)) =>
    LET t == Toks(w)  hs == Headers(t) IN
    /\ Len(scopes) = Len(hs)
    /\ \A i \in 1..Len(hs) : scopes[i].h = hs[i] /\ scopes[i].b = BlockAt(t, hs[i].e)
ScopesNestOrAreDisjoint ==
  Canonical(Toks(w)) =>
    \A i, j \in 1..Len(scopes) : i < j => (scopes[j].b.e <= scopes[i].b.e \/ scopes[i].b.e <= scopes[j].h.s)
=============================================================================
