---------------------------- MODULE NestedSearch ----------------------------
(***************************************************************************)
(* scope_utils.get_headers / _find_header_patterns as coded (after the     *)
(* `fix:` commit d7bef04): header candidates are the leftmost-longest      *)
(* matches of the header pattern; a candidate is a header when it is       *)
(* followed by a body opener (starts_with(followed_by, rest) is not None); *)
(* a candidate that is NOT (a call, say) is searched again from its second *)
(* token to its end, because it may enclose real headers - a method of an  *)
(* anonymous class passed as an argument.  The code keeps a stack of       *)
(* ranges; one action per step of its loops:                               *)
(*   Pop       ranges.pop(); find_all on tokens[start:end]                 *)
(*   Accept    the next candidate is followed by a body -> result          *)
(*   Reject    it is not -> push (start + 1, end) when longer than 1       *)
(*   EndRange  candidates of this range exhausted                          *)
(*   Finish    no range left: sort by start                                *)
(* find_all is taken as SearchRef - that is FindAll.tla's invariant IsRef  *)
(* (compositional: the loop is checked there, its result is used here).    *)
(* followed_by is a pattern fb (or NoFb); the code asks starts_with, i.e.  *)
(* ShortestPrefix > 0, on the FULL rest of the token list, not on the      *)
(* range being searched.                                                   *)
(*                                                                         *)
(* Checked: HSound, HSorted, HDisjoint, HIsRef (= the recursive            *)
(* definition Hdr), HComplete (every position where greedy matching finds  *)
(* a header is covered by a reported header unless an enclosing rejected   *)
(* candidate ends inside its span), Shrinks (every pushed range is         *)
(* strictly narrower than the range it came from) and Terminates.          *)
(* Generator role: the final states carry (re, fb, w, result); they are    *)
(* replayed into the real get_headers.                                     *)
(***************************************************************************)
EXTENDS Regex, TLC
CONSTANTS Sigma, MaxSize, MaxLen, FbSize

NoFb == <<"none">>
VARIABLES re, fb, w, ranges, cur, pend, result, rejected, phase
vars == <<re, fb, w, ranges, cur, pend, result, rejected, phase>>

Words == UNION { [1..n -> Sigma] : n \in 0..MaxLen }

FollowedOK(e) == IF fb = NoFb THEN TRUE ELSE ShortestPrefix(fb, Sub(w, e, Len(w))) > 0

Shift(ms, d) == [ i \in 1..Len(ms) |-> <<ms[i][1] + d, ms[i][2] + d>> ]
FindIn(lo, hi) == Shift(SearchRef(re, Sub(w, lo, hi)), lo)

Init == /\ re \in { r \in AllAST(Sigma, MaxSize) : ~Nullable(r) }
        /\ fb \in {NoFb} \cup AllAST(Sigma, FbSize)
        /\ w \in Words
        /\ ranges = << <<0, Len(w)>> >> /\ cur = <<0, 0>> /\ pend = <<>>
        /\ result = <<>> /\ rejected = {} /\ phase = "pop"

Pop == /\ phase = "pop" /\ ranges # <<>>
       /\ LET top == ranges[Len(ranges)] IN
            /\ cur' = top /\ pend' = FindIn(top[1], top[2])
            /\ ranges' = SubSeq(ranges, 1, Len(ranges) - 1)
       /\ phase' = "judge" /\ UNCHANGED <<re, fb, w, result, rejected>>
Accept == /\ phase = "judge" /\ pend # <<>> /\ FollowedOK(Head(pend)[2])
          /\ result' = Append(result, Head(pend)) /\ pend' = Tail(pend)
          /\ UNCHANGED <<re, fb, w, ranges, cur, rejected, phase>>
Reject == /\ phase = "judge" /\ pend # <<>> /\ ~FollowedOK(Head(pend)[2])
          /\ LET m == Head(pend) IN
               /\ ranges' = IF m[2] - m[1] > 1 THEN Append(ranges, <<m[1] + 1, m[2]>>) ELSE ranges
               /\ rejected' = rejected \cup {m}
          /\ pend' = Tail(pend)
          /\ UNCHANGED <<re, fb, w, cur, result, phase>>
EndRange == /\ phase = "judge" /\ pend = <<>> /\ phase' = "pop"
            /\ UNCHANGED <<re, fb, w, ranges, cur, pend, result, rejected>>
(* sorted(result, key = start): insertion of the elements in order of their start *)
RECURSIVE SortByStart(_)
SortByStart(S) == IF S = {} THEN <<>>
                  ELSE LET m == CHOOSE m \in S : \A o \in S : m[1] <= o[1] IN <<m>> \o SortByStart(S \ {m})
Range(s) == { s[i] : i \in 1..Len(s) }
Finish == /\ phase = "pop" /\ ranges = <<>>
          /\ result' = SortByStart(Range(result)) /\ phase' = "done"
          /\ UNCHANGED <<re, fb, w, ranges, cur, pend, rejected>>
Next == Pop \/ Accept \/ Reject \/ EndRange \/ Finish
Spec == Init /\ [][Next]_vars /\ WF_vars(Next)

(* the recursive definition the loop is meant to compute *)
RECURSIVE Hdr(_, _)
Hdr(lo, hi) == LET ms == FindIn(lo, hi) IN
  UNION { IF FollowedOK(ms[i][2]) THEN {ms[i]}
          ELSE IF ms[i][2] - ms[i][1] > 1 THEN Hdr(ms[i][1] + 1, ms[i][2]) ELSE {} : i \in 1..Len(ms) }

Finished == phase = "done"
HeaderAt(s) == GreedySucceeds(re, w, s) /\ FollowedOK(GreedyEnd(re, w, s))
HSound    == Finished => InBounds(w, result) /\ AreWords(re, w, result) /\ \A i \in 1..Len(result) : FollowedOK(result[i][2])
HSorted   == Finished => \A i \in 1..(Len(result) - 1) : result[i][1] < result[i + 1][1]
HDisjoint == Finished => OrderedDisjoint(result)
HIsRef    == Finished => Range(result) = Hdr(0, Len(w)) /\ Len(result) = Cardinality(Hdr(0, Len(w)))
HComplete == Finished => \A s \in 0..(Len(w) - 1) : HeaderAt(s) =>
                \/ Covered(result, s)
                \/ \E c \in rejected : c[1] < s /\ s < c[2] /\ c[2] < GreedyEnd(re, w, s)
(* the same without reference to the loop's bookkeeping - the clause the acceptors use (NestedSearchTrace,    *)
(* NestedHeaderTrace): whatever hides s is a greedy match of the WHOLE word that starts before s, ends inside   *)
(* the span of s and has no body.  Checked here so that the acceptors can never reject the coded loop.         *)
HCompleteDeclarative == Finished => \A s \in 0..(Len(w) - 1) : HeaderAt(s) =>
                \/ Covered(result, s)
                \/ \E cs \in 0..(s - 1) : /\ GreedySucceeds(re, w, cs) /\ s < GreedyEnd(re, w, cs)
                                           /\ GreedyEnd(re, w, cs) < GreedyEnd(re, w, s) /\ ~FollowedOK(GreedyEnd(re, w, cs))
(* not required by anything, recorded as a characteristic: inside a rejected candidate the longest match is  *)
(* taken within the candidate, so a reported inner header need not be the longest word from its start in w   *)
HLongestOuter == Finished => \A i \in 1..Len(result) :
                   (\A c \in rejected : ~(c[1] < result[i][1] /\ result[i][2] <= c[2])) => result[i][2] = GreedyEnd(re, w, result[i][1])
Shrinks == [][ Len(ranges') > Len(ranges) =>
                 ranges'[Len(ranges')][2] - ranges'[Len(ranges')][1] < cur[2] - cur[1] ]_vars
NoLostRange == \A i \in 1..Len(ranges) : 0 <= ranges[i][1] /\ ranges[i][1] <= ranges[i][2] /\ ranges[i][2] <= Len(w)
Terminates == <>(phase = "done")
=============================================================================
