------------------------------- MODULE Edits -------------------------------
(***************************************************************************)
(* C04 / C17 - edits that must not change what is measured.                *)
(*                                                                         *)
(* A document is seen as its lines; a measurement is                        *)
(*   [name, sl, sc, el, ec, len]  (name id, start line/column, end          *)
(*   line/column, length).  An edit script is a set of simultaneous edits  *)
(* in ORIGINAL line coordinates:                                           *)
(*   insert a line before original line `at` - kinds "blank", "spaces",    *)
(*     "comment" (a comment-only line in one of the language's styles);    *)
(*   change line `at` in place - kinds "trail_comment" (append a trailing  *)
(*     comment not starting with the marker), "trail_ws" (append blanks);  *)
(*   "mark" line `at` (append a comment that begins with the suppression   *)
(*     marker), "decoy" (a comment that merely contains the word later, or *)
(*     the marker on a line that holds no function name).                  *)
(* Reference: Shift / Visible give the measurement list that must be       *)
(* reported for the edited text, as a function of the list reported for    *)
(* the base text.  The state machine enumerates edit scripts over abstract *)
(* points (bound to concrete token-safe positions of each file by          *)
(* vf/edits.py); EditTrace.tla accepts the recorded scans.                 *)
(***************************************************************************)
EXTENDS Naturals, Sequences, FiniteSets, TLC

CONSTANTS NPoints,     \* abstract insertion / line points 1..NPoints
          Kinds,       \* edit kinds this configuration uses
          NStyles,     \* comment styles 1..NStyles (bound per language by the harness)
          MaxEdits

InsertKinds == {"blank", "spaces", "comment"}
InPlaceKinds == {"trail_comment", "trail_ws", "mark", "decoy"}

(* ---- reference ---- *)
InsertedUpTo(script, L) == Cardinality({ i \in 1..Len(script) : script[i].k \in InsertKinds /\ script[i].at <= L })
ShiftLine(script, L) == L + InsertedUpTo(script, L)
Shift(meas, script) == [ i \in 1..Len(meas) |->
                           [meas[i] EXCEPT !.sl = ShiftLine(script, @), !.el = ShiftLine(script, @)] ]
(* C17: the marked functions disappear, every other tuple stays identical *)
Visible(meas, marked) == SelectSeq(meas, LAMBDA m : m.name \notin marked)

(* ---- generator: edit scripts over abstract points ---- *)
VARIABLES script
Init == script = <<>>
AddEdit(k, p, s) == /\ Len(script) < MaxEdits
                    /\ \A i \in 1..Len(script) : ~(script[i].k = k /\ script[i].at = p /\ script[i].style = s)
                    \* scripts are sets: build them in canonical (non-decreasing point) order only
                    /\ (IF script = <<>> THEN TRUE ELSE script[Len(script)].at <= p)
                    /\ (k \in InPlaceKinds => \A i \in 1..Len(script) : ~(script[i].k \in InPlaceKinds /\ script[i].at = p))
                    /\ script' = Append(script, [k |-> k, at |-> p, style |-> s])
Next == \E k \in Kinds, p \in 1..NPoints, s \in 1..NStyles : AddEdit(k, p, s)
Spec == Init /\ [][Next]_script

(* ---- model-level sanity of the reference (a 12-line abstract document) ---- *)
AbstractMeas == << [name |-> 1, sl |-> 2, sc |-> 1, el |-> 5, ec |-> 2, len |-> 4],
                   [name |-> 2, sl |-> 3, sc |-> 5, el |-> 4, ec |-> 6, len |-> 2],
                   [name |-> 3, sl |-> 7, sc |-> 1, el |-> 12, ec |-> 2, len |-> 6] >>
PointLine(p) == 2 * p          \* abstract point p stands for original line 2p of the abstract document
Concrete(scr) == [ i \in 1..Len(scr) |-> [scr[i] EXCEPT !.at = PointLine(@)] ]
ShiftPreservesOrderAndNesting ==
  LET m == Shift(AbstractMeas, Concrete(script)) IN
  /\ \A i \in 1..Len(m) : m[i].sl <= m[i].el /\ m[i].len = AbstractMeas[i].len /\ m[i].name = AbstractMeas[i].name
  /\ \A i, j \in 1..Len(m) : (AbstractMeas[i].sl < AbstractMeas[j].sl) => (m[i].sl < m[j].sl)
  /\ \A i, j \in 1..Len(m) : (AbstractMeas[i].sl <= AbstractMeas[j].sl /\ AbstractMeas[j].el <= AbstractMeas[i].el)
                               => (m[i].sl <= m[j].sl /\ m[j].el <= m[i].el)
ShiftGrowsSpansOnlyByInsertedLines ==
  LET m == Shift(AbstractMeas, Concrete(script)) IN
  \A i \in 1..Len(m) : (m[i].el - m[i].sl) - (AbstractMeas[i].el - AbstractMeas[i].sl)
                        = Cardinality({ e \in 1..Len(script) : script[e].k \in InsertKinds
                                          /\ AbstractMeas[i].sl < PointLine(script[e].at) /\ PointLine(script[e].at) <= AbstractMeas[i].el })
=============================================================================
