-------------------------------- MODULE Walk --------------------------------
(***************************************************************************)
(* Implementation-shaped model of Scanner.scan_path (C11, C06): the walk   *)
(* over a directory tree as a state machine whose schedule - the order in  *)
(* which os.walk hands out directories and files - is chosen by the        *)
(* environment.                                                            *)
(*   VisitDir(d)   one iteration of `for root, dirs, files in os.walk`:    *)
(*                 hidden sub-directories are pruned in place (dirs[:]),   *)
(*                 the remaining ones become pending; the files of d       *)
(*                 become pending file visits                              *)
(*   VisitFile(f)  hidden -> skipped; relative path matched against the    *)
(*                 exclusion spec -> skipped; no supported lexer ->        *)
(*                 skipped; otherwise analysed and added under its         *)
(*                 root-relative path                                      *)
(* A name is <<stem, ext>> as in Selection.tla; the exclusion spec is      *)
(* abstracted to the set ExcludedNames of bare names (a path is excluded   *)
(* iff one of its components is in it) - the pattern classes themselves    *)
(* are Selection.tla's subject.  TLC explores EVERY interleaving and       *)
(* checks that the analysed set is exactly the contributing set (so it     *)
(* does not depend on the order), that nothing below a hidden directory is *)
(* ever visited, and that every file is analysed at most once.             *)
(***************************************************************************)
EXTENDS Naturals, Sequences, FiniteSets, TLC

CONSTANTS DirNames, FileNames, MaxDepth, HiddenNames, ExcludedNames, Supported

RECURSIVE DirsOfDepth(_)
DirsOfDepth(d) == IF d = 0 THEN { <<>> } ELSE { Append(p, n) : p \in DirsOfDepth(d - 1), n \in DirNames }
Dirs == UNION { DirsOfDepth(d) : d \in 0..MaxDepth }
Files == { Append(d, f) : d \in Dirs, f \in FileNames }
SubDirs(d) == IF Len(d) < MaxDepth THEN { Append(d, n) : n \in DirNames } ELSE {}
FilesIn(d) == { Append(d, f) : f \in FileNames }
Last(p) == p[Len(p)]
Hidden(p) == \E i \in 1..Len(p) : p[i] \in HiddenNames
Excluded(p) == \E i \in 1..Len(p) : p[i] \in ExcludedNames
Contributes(p) == ~Hidden(p) /\ ~Excluded(p) /\ Last(p)[2] \in Supported

VARIABLES pendingDirs, pendingFiles, visitedDirs, analysed, count
vars == <<pendingDirs, pendingFiles, visitedDirs, analysed, count>>

Init == /\ pendingDirs = { <<>> } /\ pendingFiles = {} /\ visitedDirs = {} /\ analysed = {}
        /\ count = [f \in Files |-> 0]
VisitDir(d) == /\ d \in pendingDirs
               /\ pendingDirs' = (pendingDirs \ {d}) \cup { s \in SubDirs(d) : Last(s) \notin HiddenNames }     \* dirs[:] = ...
               /\ pendingFiles' = pendingFiles \cup FilesIn(d)
               /\ visitedDirs' = visitedDirs \cup {d}
               /\ UNCHANGED <<analysed, count>>
VisitFile(f) == /\ f \in pendingFiles
                /\ pendingFiles' = pendingFiles \ {f}
                /\ IF Last(f) \notin HiddenNames /\ ~Excluded(f) /\ Last(f)[2] \in Supported
                     THEN analysed' = analysed \cup {f} /\ count' = [count EXCEPT ![f] = @ + 1]
                     ELSE UNCHANGED <<analysed, count>>
                /\ UNCHANGED <<pendingDirs, visitedDirs>>
Next == (\E d \in pendingDirs : VisitDir(d)) \/ (\E f \in pendingFiles : VisitFile(f))
Spec == Init /\ [][Next]_vars

Finished == pendingDirs = {} /\ pendingFiles = {}
ExactlyTheContributingFiles == Finished => analysed = { p \in Files : Contributes(p) }
NothingBelowHiddenIsVisited == \A d \in visitedDirs : ~Hidden(d)
OnlyContributingEverAnalysed == \A p \in analysed : Contributes(p)
EachFileOnce == \A f \in Files : count[f] <= 1
=============================================================================
