----------------------------- MODULE RegexCases -----------------------------
(***************************************************************************)
(* Generator + oracle (role G) for C13 and C14: TLC enumerates every       *)
(* (pattern, word) pair within the bounds and attaches the reference       *)
(* verdicts of Regex.tla as the ghost variable v.  The dump of this graph  *)
(* is replayed into the real matcher by vf/props/c13.py and c14.py.        *)
(*   v = <<InL, Viable, ShortestPrefix, Nullable, SearchRef>>              *)
(***************************************************************************)
EXTENDS Regex, TLC
CONSTANTS Sigma, MaxSize, MaxLen, OnlyNonNullable, WithSearch

VARIABLES re, w, v
vars == <<re, w, v>>

Verdict(r, u) == <<InL(r, u), Viable(r, u), ShortestPrefix(r, u), Nullable(r),
                   IF WithSearch THEN SearchRef(r, u) ELSE <<>> >>

Init == /\ re \in { r \in AllAST(Sigma, MaxSize) : OnlyNonNullable => ~Nullable(r) }
        /\ w = <<>>
        /\ v = Verdict(re, w)
Next == /\ Len(w) < MaxLen
        /\ \E a \in Sigma : w' = Append(w, a)
        /\ v' = Verdict(re, w')
        /\ UNCHANGED re
Spec == Init /\ [][Next]_vars

(* sanity of the oracle itself (non-vacuity): the clauses hold of the reference result *)
RefIsOK == (WithSearch /\ ~Nullable(re)) => SearchOK(re, w, v[5])
PrefixSane == v[3] > 0 => (v[3] <= Len(w) /\ InL(re, SubSeq(w, 1, v[3])))
ViableSane == v[1] => v[2]
=============================================================================
