--------------------------- MODULE CodebaseTrace ---------------------------
(***************************************************************************)
(* Acceptor (role A) for C07: the projection of a real Codebase object     *)
(* (after add_file in some order, optionally aggregate) is judged against  *)
(* the reference clauses of Codebase.tla.  Event:                          *)
(*  {id, files: <<<<path, lang, lens>>..>>, tree: <<<<key, entries,         *)
(*   profile>>..>>, totals: <<<<lang, files, loc, functions, hard, unm>>..>>,*)
(*   grand: <<<<files, functions, loc, hard, unm>>..>> (one per way of      *)
(*   obtaining grand totals), fileprof_ok, doc_same, agg, exc}             *)
(***************************************************************************)
EXTENDS Codebase, Json, IOUtils

Calls == ndJsonDeserialize(IOEnv.TRACE_FILE)
VARIABLE i

F(c) == [x \in 1..Len(c.files) |-> [path |-> c.files[x][1], lang |-> c.files[x][2], lens |-> c.files[x][3]]]
Keys(c) == { c.tree[x][1] : x \in 1..Len(c.tree) }
T(c) == [k \in Keys(c) |-> LET x == CHOOSE x \in 1..Len(c.tree) : c.tree[x][1] = k
                           IN  [entries |-> c.tree[x][2], profile |-> c.tree[x][3]]]
Tot(c) == [x \in 1..Len(c.totals) |-> <<c.totals[x][1], [files |-> c.totals[x][2], loc |-> c.totals[x][3],
                                        functions |-> c.totals[x][4], hard |-> c.totals[x][5], unm |-> c.totals[x][6]]>>]
ExpectedGrand(ff) == LET D == 1..Len(ff) IN
  << Len(ff),
     SumFn(D, [x \in D |-> Len(ff[x].lens)]),
     SumFn(D, [x \in D |-> SumSeq(ff[x].lens)]),
     SumFn(D, [x \in D |-> Counts(ff[x].lens)[3]]),
     SumFn(D, [x \in D |-> Counts(ff[x].lens)[4]]) >>

Clause(c) ==
  CASE c.exc # "" -> "NormalReturn"
    [] Len(c.tree) # Cardinality(Keys(c)) -> "FolderKeysUnique"
    [] <<>> \notin Keys(c) -> "RootFolderPresent"
    [] FirstFailingClause(F(c), T(c), Tot(c), c.agg) # "none" -> FirstFailingClause(F(c), T(c), Tot(c), c.agg)
    [] ~c.fileprof_ok -> "FileProfilePartitionsLoc"
    [] \E g \in 1..Len(c.grand) : c.grand[g] # ExpectedGrand(F(c)) -> "GrandTotalsAsReported"
    [] ~c.doc_same -> "ReportDocumentMatchesCodebase"
    [] OTHER -> "none"

TInit == i = 1 /\ Init
TNext == /\ i <= Len(Calls)
         /\ LET cl == Clause(Calls[i]) IN
              IF cl = "none" THEN TRUE ELSE PrintT(<<"REJECT", Calls[i].id, cl>>)
         /\ i' = i + 1 /\ UNCHANGED vars
TSpec == TInit /\ [][TNext]_<<i, files, tree, treeOrder, totals, aggregated>>
AllConsumed == TLCGet("stats").diameter - 1 = Len(Calls)
=============================================================================
