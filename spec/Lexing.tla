------------------------------ MODULE Lexing ------------------------------
(***************************************************************************)
(* C16 - token positions are faithful to the source text.                  *)
(*                                                                         *)
(* Implementation-shaped model of codelimit/common/lexer_utils.lex:        *)
(*   the lexer hands over (offset, type, text) triples in source order;    *)
(*   lex walks them with the loop state (ni, ls) = (newline_index,         *)
(*   line_start) over the list of newline offsets, computes a 1-based      *)
(*   (line, column) per token, then filter_tokens drops whitespace tokens  *)
(*   and - unless requested - comment tokens.                              *)
(* A text is a sequence over {"n" newline, "s" blank, "x" other, "f" a     *)
(* blank character that str.splitlines() but not the tool treats as a line *)
(* break: form feed, vertical tab, lone CR, U+2028, ...}; a token           *)
(* has a class: "code" (any non-Text, non-Comment type), "text" (type Text *)
(* or Whitespace - a whitespace token iff its characters are all blank or  *)
(* newline, INCLUDING the empty token, as after the `fix:` commit),        *)
(* "comment".  One Emit(len, cls) step = one iteration of                  *)
(* `for t in lexer_tokens`.  Tokens partition the text; zero-length tokens *)
(* (Pygments emits them, type Text) may sit between any two.               *)
(* toks is a ghost history hidden by the VIEW: TLC visits every loop state *)
(* once and the kept history is a witness tokenisation reaching it, which  *)
(* vf/props/c16.py replays through the real lex with a stub lexer.         *)
(***************************************************************************)
EXTENDS Naturals, Integers, Sequences, FiniteSets, TLC

CONSTANTS MaxLen

Chars == {"n", "s", "x", "f"}      \* "f": form feed, vertical tab, lone CR, U+2028 ... - blank, but NOT a line break
Texts == UNION { [1..n -> Chars] : n \in 0..MaxLen }
Classes == {"code", "text", "comment"}

NewlineOffsets(t) == { i - 1 : i \in { j \in 1..Len(t) : t[j] = "n" } }       \* 0-based
(* reference: 1-based line and column of 0-based offset off *)
NLBefore(t, off) == { p \in NewlineOffsets(t) : p < off }
Max(S) == CHOOSE x \in S : \A y \in S : y <= x
Loc(t, off) == << 1 + Cardinality(NLBefore(t, off)),
                  IF NLBefore(t, off) = {} THEN off + 1 ELSE off - Max(NLBefore(t, off)) >>
Slice(t, off, len) == SubSeq(t, off + 1, off + len)
AllBlank(s) == \A i \in 1..Len(s) : s[i] \in {"n", "s", "f"}
IsWhitespaceToken(tok) == tok.cls = "text" /\ AllBlank(tok.txt)
KeptIf(tok, kc) == ~IsWhitespaceToken(tok) /\ (tok.cls = "comment" => kc)

(* the sorted list of newline offsets, as get_newline_indices builds it *)
RECURSIVE SortedSeq(_)
SortedSeq(S) == IF S = {} THEN <<>> ELSE LET m == CHOOSE x \in S : \A y \in S : x <= y IN <<m>> \o SortedSeq(S \ {m})

VARIABLES text, keep, pos, ni, ls, last, prevKept, toks      \* keep: lex(..., filter_comments = ~keep)
vars == <<text, keep, pos, ni, ls, last, prevKept, toks>>
LoopView == <<text, keep, pos, ni, ls, last, prevKept>>
Kept(tok) == KeptIf(tok, keep)
None == [off |-> -1, len |-> 0, cls |-> "none", txt |-> <<>>, loc |-> <<0, 0>>]

Init == /\ text \in Texts /\ keep \in BOOLEAN /\ pos = 0 /\ ni = 0 /\ ls = 0
        /\ last = None /\ prevKept = None /\ toks = <<>>

(* the `while newline_index < len(indices) and t[0] > indices[newline_index]` loop *)
RECURSIVE Advance(_, _, _, _)
Advance(idx, off, n, s) == IF n < Len(idx) /\ off > idx[n + 1] THEN Advance(idx, off, n + 1, idx[n + 1] + 1) ELSE <<n, s>>

Emit(len, cls) ==
  /\ pos + len <= Len(text)
  /\ (len = 0 => cls = "text" /\ last.len # 0)               \* zero-length tokens: type Text, never two in a row
  /\ LET idx == SortedSeq(NewlineOffsets(text))
         adv == IF Len(idx) = 0 THEN <<0, 0>> ELSE Advance(idx, pos, ni, ls)
         loc == IF Len(idx) = 0 THEN <<1, pos + 1>> ELSE <<adv[1] + 1, pos - adv[2] + 1>>
         tok == [off |-> pos, len |-> len, cls |-> cls, txt |-> Slice(text, pos, len), loc |-> loc]
     IN  /\ ni' = adv[1] /\ ls' = adv[2]
         /\ last' = tok
         /\ prevKept' = IF last # None /\ Kept(last) THEN last ELSE prevKept
         /\ toks' = Append(toks, tok)
  /\ pos' = pos + len
  /\ text' = text /\ keep' = keep
Next == \E len \in 0..MaxLen, cls \in Classes : Emit(len, cls)
Spec == Init /\ [][Next]_vars

(* ---- C16 on the model ---- *)
LocationFaithful == last # None => last.loc = Loc(text, last.off)
TextAtLocation == last # None => Slice(text, last.off, last.len) = last.txt
KeptInStrictOrder == (last # None /\ Kept(last) /\ prevKept # None) =>
                        /\ last.off > prevKept.off
                        /\ last.off >= prevKept.off + prevKept.len
NoWhitespaceKept == \A i \in 1..Len(toks) : Kept(toks[i]) => ~IsWhitespaceToken(toks[i])
CommentsKeptIffRequested == \A i \in 1..Len(toks) : toks[i].cls = "comment" => (Kept(toks[i]) = keep)
LineWithinText == last # None => last.loc[1] <= 1 + Cardinality(NewlineOffsets(text)) /\ last.loc[2] >= 1
=============================================================================
