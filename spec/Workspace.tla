----------------------------- MODULE Workspace -----------------------------
(***************************************************************************)
(* C09 / C10 (and the skeleton of C11 / C12) - the workspace: a directory  *)
(* tree, the exclusion configuration, the on-disk cache, and the commands  *)
(* that read and write them.  The environment's moves are explicit         *)
(* actions; hist records the behaviour so that vf/workspace.py can replay  *)
(* it step by step on a real directory through scan_command,               *)
(* report_command and findings_command.                                    *)
(*                                                                         *)
(*   fs[p]      content id of file p, or Absent                            *)
(*   excl       the set of paths excluded by configuration                 *)
(*   cache      [kind |-> "none"]                                          *)
(*              [kind |-> "ok", ver, ent, honest]   ent[p] = [sum, res] or *)
(*                 NoEnt; honest = every entry carries the true result of  *)
(*                 the content its checksum names                          *)
(*              [kind |-> "damaged", how]   not a readable report          *)
(*   report     what the last scan reported: path -> result id or Absent   *)
(*   reused     the paths whose cached entry the last scan reused          *)
(*   outcome    outcome of the last command ("", "ok", "refused")          *)
(*                                                                         *)
(* Scan is modelled as coded (after the `fix:` commits): a cache entry is  *)
(* reused iff the cache is a readable report of the tool's own version     *)
(* with an entry for the same relative path whose checksum equals the      *)
(* file's; otherwise the file is analysed; the cache is then rewritten.    *)
(* The result of analysing content c is the abstract id Res(c); a tainted  *)
(* entry carries the id Tainted instead, which is how reuse is observed.   *)
(***************************************************************************)
EXTENDS Naturals, Sequences, FiniteSets, TLC

CONSTANTS Paths, Contents, MaxOps,
          Ops,           \* operation kinds this configuration uses
          FaultKinds     \* how a cache file can be damaged (abstract classes)

Absent == "absent"
Tainted == "tainted"
Tool == "tool"
Foreign == "foreign"
NoEnt == [sum |-> Absent, res |-> Absent]
Res(c) == c

VARIABLES fs, excl, cache, report, reused, outcome, hist
vars == <<fs, excl, cache, report, reused, outcome, hist>>
StateView == <<fs, excl, cache, report, reused, outcome, Len(hist)>>

Contrib(f, e) == { p \in Paths : f[p] # Absent /\ p \notin e }
Fresh(f, e) == [ p \in Paths |-> IF p \in Contrib(f, e) THEN Res(f[p]) ELSE Absent ]
Usable == cache.kind = "ok" /\ cache.ver = Tool
Permitted(p) == Usable /\ cache.ent[p].sum = fs[p]
Honest == cache.kind = "ok" => cache.honest

Init == /\ fs = [p \in Paths |-> Absent] /\ excl = {} /\ cache = [kind |-> "none"]
        /\ report = [p \in Paths |-> Absent] /\ reused = {} /\ outcome = "" /\ hist = <<>>

Step(op) == /\ op[1] \in Ops /\ Len(hist) < MaxOps /\ hist' = Append(hist, op)
Quiet == UNCHANGED <<report, reused>> /\ outcome' = ""

Write(p, c)  == Step(<<"Write", p, c>>) /\ fs[p] # c /\ fs' = [fs EXCEPT ![p] = c] /\ UNCHANGED <<excl, cache>> /\ Quiet
Delete(p)    == Step(<<"Delete", p>>) /\ fs[p] # Absent /\ fs' = [fs EXCEPT ![p] = Absent] /\ UNCHANGED <<excl, cache>> /\ Quiet
Rename(a, b) == Step(<<"Rename", a, b>>) /\ a # b /\ fs[a] # Absent
                /\ fs' = [fs EXCEPT ![b] = fs[a], ![a] = Absent] /\ UNCHANGED <<excl, cache>> /\ Quiet
Touch(p)     == Step(<<"Touch", p>>) /\ fs[p] # Absent /\ UNCHANGED <<fs, excl, cache>> /\ Quiet
Swap(a, b)   == Step(<<"Swap", a, b>>) /\ fs[a] # Absent /\ fs[b] # Absent /\ fs[a] # fs[b]
                /\ fs' = [fs EXCEPT ![a] = fs[b], ![b] = fs[a]] /\ UNCHANGED <<excl, cache>> /\ Quiet
SetExcl(e)   == Step(<<"SetExcl", e>>) /\ e # excl /\ excl' = e /\ UNCHANGED <<fs, cache>> /\ Quiet
(* the cache is replaced by one written by another version of the tool (entries untouched) *)
ForeignVersion == Step(<<"ForeignVersion">>) /\ cache.kind = "ok" /\ cache.ver = Tool
                  /\ cache' = [cache EXCEPT !.ver = Foreign] /\ UNCHANGED <<fs, excl>> /\ Quiet
(* an entry's checksum is replaced by the checksum of other content: the payload no longer matches *)
AlterChecksum(p, c) == Step(<<"AlterChecksum", p, c>>) /\ cache.kind = "ok" /\ cache.ent[p] # NoEnt /\ cache.ent[p].sum # c
                       /\ cache' = [cache EXCEPT !.ent[p].sum = c, !.honest = FALSE] /\ UNCHANGED <<fs, excl>> /\ Quiet
(* an entry is filed under another path *)
AlterKey(a, b) == Step(<<"AlterKey", a, b>>) /\ a # b /\ cache.kind = "ok" /\ cache.ent[a] # NoEnt
                  /\ cache' = [cache EXCEPT !.ent[b] = cache.ent[a], !.ent[a] = NoEnt] /\ UNCHANGED <<fs, excl>> /\ Quiet
(* the probe: every entry keeps its checksum but carries a recognisable result *)
Taint == Step(<<"Taint">>) /\ cache.kind = "ok" /\ (\E p \in Paths : cache.ent[p] # NoEnt /\ cache.ent[p].res # Tainted)
         /\ cache' = [cache EXCEPT !.ent = [p \in Paths |-> IF cache.ent[p] = NoEnt THEN NoEnt ELSE [cache.ent[p] EXCEPT !.res = Tainted]],
                                   !.honest = FALSE]
         /\ UNCHANGED <<fs, excl>> /\ Quiet
(* a crash / full disk during the cache write, or any other damage: the file is not a readable report *)
Damage(how) == Step(<<"Damage", how>>) /\ cache.kind # "damaged" /\ cache' = [kind |-> "damaged", how |-> how]
               /\ UNCHANGED <<fs, excl>> /\ Quiet

Scan == /\ Step(<<"Scan">>)
        /\ LET use == { p \in Contrib(fs, excl) : Permitted(p) }
               rep == [ p \in Paths |-> IF p \in Contrib(fs, excl)
                                        THEN (IF p \in use THEN cache.ent[p].res ELSE Res(fs[p])) ELSE Absent ]
           IN  /\ reused' = use
               /\ report' = rep
               /\ cache' = [kind |-> "ok", ver |-> Tool,
                            ent |-> [ p \in Paths |-> IF p \in Contrib(fs, excl) THEN [sum |-> fs[p], res |-> rep[p]] ELSE NoEnt ],
                            honest |-> \A p \in Contrib(fs, excl) : rep[p] = Res(fs[p])]
        /\ outcome' = "ok" /\ UNCHANGED <<fs, excl>>
(* report / findings display the cached report only if it was written by this version *)
ShowReport(cmd) == /\ Step(<<cmd>>)
                   /\ outcome' = IF cache.kind = "ok" /\ cache.ver = Tool THEN "ok"
                                 ELSE IF cache.kind = "damaged" THEN "unreadable" ELSE "refused"
                   /\ UNCHANGED <<fs, excl, cache, report, reused>>

Next == \/ \E p \in Paths, c \in Contents : Write(p, c) \/ AlterChecksum(p, c)
        \/ \E p \in Paths : Delete(p) \/ Touch(p)
        \/ \E a, b \in Paths : Rename(a, b) \/ Swap(a, b) \/ AlterKey(a, b)
        \/ \E e \in SUBSET Paths : Cardinality(e) <= 1 /\ SetExcl(e)
        \/ ForeignVersion \/ Taint \/ Scan
        \/ \E how \in FaultKinds : Damage(how)
        \/ ShowReport("Report") \/ ShowReport("Findings")
Spec == Init /\ [][Next]_vars

(* ---- the properties ---- *)
LastOp == IF hist = <<>> THEN <<"">> ELSE hist[Len(hist)]
(* C09: a scan over an honest (or absent, foreign, damaged) cache reports exactly the fresh result *)
ScanEqualsFresh == [][ (hist' # hist /\ hist'[Len(hist')][1] = "Scan" /\ Honest) => report' = Fresh(fs, excl) ]_vars
(* C09: entries are reused only for unchanged path + content and only from a cache of the same version *)
ReuseOnlyIfUnchanged == [][ (hist' # hist /\ hist'[Len(hist')][1] = "Scan") =>
                              \A p \in reused' : cache.kind = "ok" /\ cache.ver = Tool /\ cache.ent[p].sum = fs[p] /\ fs[p] # Absent ]_vars
ForeignNeverReused == [][ (hist' # hist /\ hist'[Len(hist')][1] = "Scan" /\ cache.kind = "ok" /\ cache.ver # Tool) => reused' = {} ]_vars
(* C09: report and findings refuse a report written by another version *)
RefuseForeign == (LastOp[1] \in {"Report", "Findings"} /\ cache.kind = "ok" /\ cache.ver # Tool) => outcome = "refused"
(* C10: whatever the cache looked like, a scan leaves a complete, valid, honest cache of this version behind *)
ScanLeavesValidCache == [][ (hist' # hist /\ hist'[Len(hist')][1] = "Scan") =>
                              (cache'.kind = "ok" /\ cache'.ver = Tool /\ (Honest => cache'.honest)
                               /\ \A p \in Paths : (cache'.ent[p] # NoEnt) = (p \in Contrib(fs, excl))) ]_vars
(* C10: a damaged cache never taints the next scan *)
DamagedCacheIsIgnored == [][ (hist' # hist /\ hist'[Len(hist')][1] = "Scan" /\ cache.kind \in {"damaged", "none"}) =>
                               (report' = Fresh(fs, excl) /\ reused' = {}) ]_vars
(* an honest cache stays honest under the tool's own writes *)
CacheHonestUnlessTampered == [][ (hist' # hist /\ hist'[Len(hist')][1] \notin {"AlterChecksum", "AlterKey", "Taint", "Damage"} /\ Honest) => Honest' ]_vars
TypeOK == /\ fs \in [Paths -> Contents \cup {Absent}] /\ excl \subseteq Paths /\ reused \subseteq Paths
=============================================================================
