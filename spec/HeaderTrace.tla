---------------------------- MODULE HeaderTrace ----------------------------
(***************************************************************************)
(* Acceptor (role A) for recorded find_all calls of the real engine on the *)
(* extracted header automata: events {id, a, w, ms, toks_ok, exc} where w  *)
(* is a sequence of token-class indices of automaton a.  Same clauses as   *)
(* Regex.tla's SearchOK, under the automaton (counter) semantics of        *)
(* AutomatonSem.tla, plus BalancedEnd.  Every event is consumed; a         *)
(* rejected one prints <<"REJECT", id, clause>>.                           *)
(***************************************************************************)
EXTENDS AutomatonSem, Json, IOUtils

Calls == ndJsonDeserialize(IOEnv.TRACE_FILE)
VARIABLE i

HCovered(ms, s) == \E j \in 1..Len(ms) : ms[j][1] <= s /\ s < ms[j][2]
HEvicted(a, w, ms, s) == /\ Succeeds(a, w, s) /\ ~HCovered(ms, s)
                         /\ \E j \in 1..Len(ms) : s < ms[j][1] /\ ms[j][2] <= Attempt(a, w, s)[1]
Clause(c) ==
  LET a == c.a  w == c.w  ms == c.ms IN
  CASE c.exc # "" -> "NormalReturn"
    [] \E j \in 1..Len(ms) : ~(0 <= ms[j][1] /\ ms[j][1] < ms[j][2] /\ ms[j][2] <= Len(w)) -> "InBounds"
    [] ~c.toks_ok -> "RecordsItsItems"
    [] \E j \in 1..Len(ms) : ~(Succeeds(a, w, ms[j][1]) /\ Attempt(a, w, ms[j][1])[1] = ms[j][2]) -> "WordAndLongest"
    [] \E j \in 1..(Len(ms) - 1) : ms[j][2] > ms[j + 1][1] -> "OrderedDisjoint"
    [] \E j \in 1..Len(ms) : ~BalancedEndAt(a, w, ms[j][1]) -> "BalancedEnd"
    [] \E s \in 0..(Len(w) - 1) : Succeeds(a, w, s) /\ ~HCovered(ms, s) /\ ~HEvicted(a, w, ms, s) -> "Complete"
    [] \E s \in 0..(Len(w) - 1) : Succeeds(a, w, s) /\ ~HCovered(ms, s) -> "Complete:EvictedByEnclosedMatch"
    [] OTHER -> "none"

Init == i = 1
Next == /\ i <= Len(Calls)
        /\ LET cl == Clause(Calls[i]) IN
             IF cl = "none" THEN TRUE ELSE PrintT(<<"REJECT", Calls[i].id, cl>>)
        /\ i' = i + 1
Spec == Init /\ [][Next]_i
AllConsumed == TLCGet("stats").diameter - 1 = Len(Calls)
=============================================================================
