----------------------------- MODULE Categories -----------------------------
(***************************************************************************)
(* The four length categories (no recursion, so that TLAPS can reason      *)
(* about them: CategoryProof.tla).                                         *)
(***************************************************************************)
EXTENDS Naturals

Category(L) == IF L <= 15 THEN 1 ELSE IF L <= 30 THEN 2 ELSE IF L <= 60 THEN 3 ELSE 4
CategoryName(L) == <<"easy", "verbose", "hard-to-maintain", "unmaintainable">>[Category(L)]
Colour(L) == <<"green", "yellow", "dark_orange", "red">>[Category(L)]
Symbol(L) == IF L > 60 THEN "cross" ELSE IF L > 30 THEN "warning" ELSE "check"
IsFinding(L) == L > 30
=============================================================================
