--------------------------- MODULE FindAllLegacy ---------------------------
(***************************************************************************)
(* The find_all loop as it was before the `fix:` commit: every position    *)
(* starts an attempt, all attempts advance in parallel, an attempt is      *)
(* skipped when it starts before the end of the LAST committed match, and  *)
(* the tail loop (FixTail = FALSE) has no such guard.  Kept as a record of *)
(* the design defect: TLC reports Ordered (OneOrMore(a) on `a a`) and,     *)
(* with the tail guarded, Covers (an attempt that starts later and ends    *)
(* earlier evicts the enclosing earlier attempt).  Used by ./check         *)
(* --selftest only; it is expected to FAIL.                                *)
(***************************************************************************)
EXTENDS Regex, TLC
CONSTANTS Sigma, MaxSize, MaxLen, FixTail

VARIABLES re, w, idx, active, matches, phase
vars == <<re, w, idx, active, matches, phase>>

Accepting(s, e) == InL(re, Sub(w, s, e))
Stuck(s, e) == \A a \in Sigma : ~Viable(re, Append(Sub(w, s, e), a))
RECURSIVE Proc(_, _, _, _)
Proc(acts, i, ms, keep) ==
  IF acts = <<>> THEN <<keep, ms>> ELSE
  LET s == Head(acts) rest == Tail(acts) IN
  IF ms # <<>> /\ s < ms[Len(ms)][2] THEN Proc(rest, i, ms, keep)
  ELSE IF Stuck(s, i) /\ Accepting(s, i) THEN Proc(rest, i, Append(ms, <<s, i>>), keep)
  ELSE IF Viable(re, Sub(w, s, i + 1)) THEN Proc(rest, i, ms, Append(keep, s))
  ELSE IF Accepting(s, i) THEN Proc(rest, i, Append(ms, <<s, i>>), keep)
  ELSE Proc(rest, i, ms, keep)
RECURSIVE TailLoop(_, _)
TailLoop(acts, ms) ==
  IF acts = <<>> THEN ms ELSE
  LET s == Head(acts) IN
  IF FixTail /\ ms # <<>> /\ s < ms[Len(ms)][2] THEN TailLoop(Tail(acts), ms)
  ELSE IF Accepting(s, Len(w)) THEN TailLoop(Tail(acts), Append(ms, <<s, Len(w)>>))
  ELSE TailLoop(Tail(acts), ms)

Words == UNION { [1..n -> Sigma] : n \in 0..MaxLen }
Init == /\ re \in { r \in AllAST(Sigma, MaxSize) : ~Nullable(r) } /\ w \in Words
        /\ idx = 0 /\ active = <<>> /\ matches = <<>> /\ phase = "loop"
Step == /\ phase = "loop" /\ idx < Len(w)
        /\ LET r == Proc(Append(active, idx), idx, matches, <<>>) IN
             active' = r[1] /\ matches' = r[2]
        /\ idx' = idx + 1 /\ UNCHANGED <<re, w, phase>>
Finish == /\ phase = "loop" /\ idx = Len(w)
          /\ matches' = TailLoop(active, matches) /\ phase' = "done"
          /\ UNCHANGED <<re, w, idx, active>>
Next == Step \/ Finish
Spec == Init /\ [][Next]_vars
Finished == phase = "done"
Sound   == Finished => InBounds(w, matches) /\ AreWords(re, w, matches) /\ AreLongest(re, w, matches)
Ordered == Finished => OrderedDisjoint(matches)
Covers  == Finished => Complete(re, w, matches)
=============================================================================
