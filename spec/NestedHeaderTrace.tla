------------------------- MODULE NestedHeaderTrace -------------------------
(***************************************************************************)
(* Acceptor (role A) for recorded get_headers calls on token-class         *)
(* sequences over the real header shapes, judged declaratively with the    *)
(* extracted automata (no stack, no order of the search):                  *)
(*   NormalReturn, HInBounds                                               *)
(*   HWords      every header is an accepted run of the header automaton   *)
(*   HFollowed   and is followed by a body (follow-up automaton)           *)
(*   HOrder      by position, pairwise disjoint                            *)
(*   HNames      the recorded name token lies inside the header            *)
(*   HCovers     a position where the greedy attempt finds a header is     *)
(*               covered, unless a candidate without a body starts before  *)
(*               it and ends inside its span                               *)
(* Event: id, pr (pair index), w, hs, names_ok, exc.                       *)
(***************************************************************************)
EXTENDS NestedHeaderCases, Json, IOUtils
Calls == ndJsonDeserialize(IOEnv.TRACE_FILE)
VARIABLE i

A1(c) == APairs[c.pr][1]
A2(c) == APairs[c.pr][2]
AcceptsExactly(a, u, s, e) == LET r == Run(a, SubSeq(u, 1, e), s, AStart[a], Depth0(a)) IN r[1] = e /\ e > s /\ r[2] \in AAccepting[a]
GreedyEndA(a, u, s) == Attempt(a, u, s)[1]
HeaderAt(c, s) == Succeeds(A1(c), c.w, s) /\ FollowedOK(A2(c), c.w, GreedyEndA(A1(c), c.w, s))
CoveredBy(hs, s) == \E k \in 1..Len(hs) : hs[k][1] <= s /\ s < hs[k][2]
(* the search cannot see past the end of a candidate without a body that it descends into; such a candidate is, at *)
(* the outermost level where the cut happens, a GREEDY match of the whole sequence (inner ranges end where an      *)
(* enclosing candidate ends, so the same end is also the greedy end of that enclosing candidate)                 *)
CutByCandidate(c, s) == \E cs \in 0..(s - 1) : LET ce == GreedyEndA(A1(c), c.w, cs) IN
                           /\ Succeeds(A1(c), c.w, cs) /\ s < ce /\ ce < GreedyEndA(A1(c), c.w, s)
                           /\ ~FollowedOK(A2(c), c.w, ce)
Clause(c) ==
  CASE c.exc # "" -> "NormalReturn"
    [] \E k \in 1..Len(c.hs) : ~(0 <= c.hs[k][1] /\ c.hs[k][1] < c.hs[k][2] /\ c.hs[k][2] <= Len(c.w)) -> "HInBounds"
    [] \E k \in 1..Len(c.hs) : ~AcceptsExactly(A1(c), c.w, c.hs[k][1], c.hs[k][2]) -> "HWords"
    [] \E k \in 1..Len(c.hs) : ~FollowedOK(A2(c), c.w, c.hs[k][2]) -> "HFollowed"
    [] \E k \in 1..(Len(c.hs) - 1) : c.hs[k][2] > c.hs[k + 1][1] -> "HOrder"
    [] ~c.names_ok -> "HNames"
    [] \E s \in 0..(Len(c.w) - 1) : HeaderAt(c, s) /\ ~CoveredBy(c.hs, s) /\ ~CutByCandidate(c, s) -> "HCovers"
    [] OTHER -> "none"

TInit == i = 1 /\ NInitAll
TNext == /\ i <= Len(Calls)
         /\ LET cl == Clause(Calls[i]) IN
              IF cl = "none" THEN TRUE ELSE PrintT(<<"REJECT", Calls[i].id, cl>>)
         /\ i' = i + 1 /\ UNCHANGED dvars
TSpec == TInit /\ [][TNext]_<<i, pr, w, v, amb, deep, ranges, pend, pd, result, phase>>
AllConsumed == TLCGet("stats").diameter - 1 = Len(Calls)
=============================================================================
