---------------------------- MODULE RenderTrace ----------------------------
(***************************************************************************)
(* Acceptor (role A) for C18.                                              *)
(*  overview event: {id, kind: "overview", cur, prev (record lang -> fig    *)
(*    id or "absent"), has_prev, text: [rows, totals], md: [rows, totals],  *)
(*    exc}   rows = <<[lang, cells: <<<<n, d>> x5>>]>> in display order,   *)
(*    totals = <<<<n, d>> x5>> or <<>> when no totals row is shown          *)
(*  findings event: {id, kind: "findings", lengths (all function lengths),  *)
(*    full, text: [listed: <<lengths in display order>>, more],            *)
(*    md: [listed, more], exc}                                             *)
(***************************************************************************)
EXTENDS Render, Json, IOUtils

Calls == ndJsonDeserialize(IOEnv.TRACE_FILE)
VARIABLE i

RowLangs(rows) == [k \in 1..Len(rows) |-> rows[k].lang]
CellOK(cell, want, strict) == cell[1] = want[1] /\ (strict => cell[2] = want[2])
FormatClause(c, fmt) ==
  LET rows == fmt.rows  P == Present(c.cur) IN
  CASE { rows[k].lang : k \in 1..Len(rows) } # P \/ Len(rows) # Cardinality(P) -> "OneRowPerLanguage"
    [] ~OrderedByLoc(c.cur, RowLangs(rows)) -> "LanguagesOrderedByLinesOfCode"
    [] \E r \in 1..Len(rows), k \in 1..5 : rows[r].cells[k][1] # Figures(c.cur, rows[r].lang)[k] -> "LanguageFigures"
    [] \E r \in 1..Len(rows), k \in 1..5 :
         c.has_prev /\ c.prev[rows[r].lang] # Absent /\ rows[r].cells[k] # ExpectedLangCell(c.cur, c.prev, c.has_prev, rows[r].lang, k) -> "LanguageDeltas"
    [] \E r \in 1..Len(rows), k \in 1..5 : ~c.has_prev /\ rows[r].cells[k][2] # 0 -> "NoDeltaWithoutComparison"
    [] Cardinality(P) > 1 /\ fmt.totals = <<>> -> "TotalsRowShown"
    [] fmt.totals # <<>> /\ \E k \in 1..5 : fmt.totals[k] # ExpectedTotalCell(c.cur, c.prev, c.has_prev, k) -> "TotalsAndTheirDeltas"
    [] OTHER -> "none"
OverviewClause(c) ==
  CASE c.exc # "" -> "NormalReturn"
    [] FormatClause(c, c.text) # "none" -> "Text:" \o FormatClause(c, c.text)
    [] FormatClause(c, c.md) # "none" -> "Markdown:" \o FormatClause(c, c.md)
    [] \E r \in 1..Len(c.text.rows) : \E q \in 1..Len(c.md.rows) :
         /\ c.text.rows[r].lang = c.md.rows[q].lang
         /\ \E k \in 1..5 : \/ c.text.rows[r].cells[k][1] # c.md.rows[q].cells[k][1]
                             \/ ((~c.has_prev \/ c.prev[c.text.rows[r].lang] # Absent) /\ c.text.rows[r].cells[k] # c.md.rows[q].cells[k])
         -> "TextAndMarkdownAgree"
    [] OTHER -> "none"

RECURSIVE IsSortedDesc(_)
IsSortedDesc(s) == Len(s) <= 1 \/ (s[1] >= s[2] /\ IsSortedDesc(Tail(s)))
Count(s, x) == Cardinality({ k \in 1..Len(s) : s[k] = x })
Long(lengths) == SelectSeq(lengths, LAMBDA L : L > 30)
(* the listed lengths must be stored lengths, and no longer stored function may be left out *)
FindingsFormat(c, fmt) ==
  LET long == Long(c.lengths)  n == Len(long)  listed == fmt.listed IN
  CASE Len(listed) # ShownFindings(n, c.full) -> "NumberOfRows"
    [] \E k \in 1..Len(listed) : listed[k] <= 30 -> "OnlyFunctionsAbove30"
    [] ~IsSortedDesc(listed) -> "LongestFirst"
    [] \E k \in 1..Len(listed) : Count(listed, listed[k]) > Count(long, listed[k]) -> "ListedAreStoredFunctions"
    [] \E k \in 1..Len(long) : (listed # <<>> /\ long[k] > listed[Len(listed)] /\ Count(listed, long[k]) < Count(long, long[k])) -> "NoLongerFunctionOmitted"
    [] fmt.more # MoreRows(n, c.full) -> "ExactNumberOfOmittedRows"
    [] OTHER -> "none"
FindingsClause(c) ==
  CASE c.exc # "" -> "NormalReturn"
    [] FindingsFormat(c, c.text) # "none" -> "Text:" \o FindingsFormat(c, c.text)
    [] FindingsFormat(c, c.md) # "none" -> "Markdown:" \o FindingsFormat(c, c.md)
    [] OTHER -> "none"
Clause(c) == IF c.kind = "overview" THEN OverviewClause(c) ELSE FindingsClause(c)

TInit == i = 1 /\ cur = [l \in Langs |-> Absent] /\ prev = [l \in Langs |-> Absent] /\ hasPrev = FALSE /\ nfind = 0 /\ full = FALSE /\ repo = FALSE
TNext == /\ i <= Len(Calls)
         /\ LET cl == Clause(Calls[i]) IN
              IF cl = "none" THEN TRUE ELSE PrintT(<<"REJECT", Calls[i].id, cl>>)
         /\ i' = i + 1 /\ UNCHANGED vars
TSpec == TInit /\ [][TNext]_<<i, cur, prev, hasPrev, nfind, full, repo>>
AllConsumed == TLCGet("stats").diameter - 1 = Len(Calls)
=============================================================================
