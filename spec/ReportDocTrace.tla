--------------------------- MODULE ReportDocTrace ---------------------------
(***************************************************************************)
(* Acceptor (role A) for C08.  One event per report value instantiated     *)
(* with concrete strings:                                                  *)
(*  {id, pretty_valid, compact_valid, same_parse, orig, doc, back,          *)
(*   rewrite_same, guard, exc}                                              *)
(* guard = what ReportReader.get_report_version says of the pretty and of   *)
(* the compact document (the version guard of report / findings / the cache)*)
(* orig = projection of the Report object, doc = projection of the parsed  *)
(* document, back = projection of the Report read back from it (strings    *)
(* abstracted to class ids / "other:..." by the harness).                  *)
(***************************************************************************)
EXTENDS ReportDoc, Json, IOUtils

Calls == ndJsonDeserialize(IOEnv.TRACE_FILE)
VARIABLE i

Clause(c) ==
  CASE c.exc # "" -> "NormalReturn"
    [] ~c.pretty_valid -> "PrettyDocumentIsValidJson"
    [] ~c.compact_valid -> "CompactDocumentIsValidJson"
    [] ~c.same_parse -> "PrettyAndCompactParseToTheSameValue"
    [] FirstFailingLaw(c.orig, c.doc) # "none" -> "Document:" \o FirstFailingLaw(c.orig, c.doc)
    [] FirstFailingLaw(c.orig, c.back) # "none" -> FirstFailingLaw(c.orig, c.back)
    [] c.guard # <<c.orig.version, c.orig.version>> -> "VersionGuardReadsTheWrittenVersion"
    [] ~c.rewrite_same -> "RewriteReproducesTheDocument"
    [] OTHER -> "none"

TInit == i = 1 /\ Init
TNext == /\ i <= Len(Calls)
         /\ LET cl == Clause(Calls[i]) IN
              IF cl = "none" THEN TRUE ELSE PrintT(<<"REJECT", Calls[i].id, cl>>)
         /\ i' = i + 1 /\ UNCHANGED rep
TSpec == TInit /\ [][TNext]_<<i, rep>>
AllConsumed == TLCGet("stats").diameter - 1 = Len(Calls)
=============================================================================
