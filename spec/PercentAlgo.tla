---------------------------- MODULE PercentAlgo ----------------------------
(***************************************************************************)
(* The rounding algorithm of Report.quality_profile_percentage in exact    *)
(* integer arithmetic (no variables; shared by Percent.tla, which          *)
(* model-checks it, and PercentProof.tla, which proves lemmas about its    *)
(* post-processing for all inputs with TLAPS).                             *)
(***************************************************************************)
EXTENDS Naturals, Integers

Total(p) == p[1] + p[2] + p[3] + p[4]
CeilDiv(a, b) == IF a <= 0 THEN 0 ELSE (a + b - 1) \div b                  \* b > 0, result >= 0
(* ceil(100 * x / t - 0.001) as the code computes it (reals; floats may differ in the last ulp) *)
CeilPct(x, t) == CeilDiv(100000 * x - t, 1000 * t)

(* post-processing of the three rounded-up figures u0 (unmaintainable), h0 (hard-to-maintain), v0 (verbose): *)
(* the two large ones may add up to 101 - one point is given back from the larger -, verbose is capped at     *)
(* what is left, easy is the remainder.  PercentProof.tla proves (TLAPS) that the result always sums to 100,  *)
(* stays within 0..100 and never turns a positive figure into zero.                                           *)
U(u0, h0) == IF u0 + h0 > 100 /\ u0 >= h0 THEN u0 - 1 ELSE u0
H(u0, h0) == IF u0 + h0 > 100 /\ u0 < h0 THEN h0 - 1 ELSE h0
V(u0, h0, v0) == IF v0 > 100 - U(u0, h0) - H(u0, h0) THEN 100 - U(u0, h0) - H(u0, h0) ELSE v0
E(u0, h0, v0) == 100 - U(u0, h0) - H(u0, h0) - V(u0, h0, v0)

Algo(p) ==
  LET t == Total(p) IN
  IF t = 0 THEN <<100, 0, 0, 0>>
  ELSE LET u0 == CeilPct(p[4], t)
           h0 == CeilPct(p[3], t)
           v0 == CeilPct(p[2], t)
       IN  <<E(u0, h0, v0), V(u0, h0, v0), H(u0, h0), U(u0, h0)>>
=============================================================================
