---------------------------- MODULE CheckNaming ----------------------------
(***************************************************************************)
(* C03 / C12 - every way of naming a file to `check`: the form of the      *)
(* argument x the working directory x --quiet.  TLC enumerates the         *)
(* nameable combinations; vf/props/c03.py runs each against real files.    *)
(***************************************************************************)
EXTENDS Naturals, TLC
ArgForms == {"relative_file", "absolute_file", "parent_dir_relative", "parent_dir_absolute", "root_dot", "root_absolute"}
CwdForms == {"root", "ancestor", "unrelated", "subdir"}
(* which (argument, cwd) pairs can be written down at all: a relative path needs the target below cwd *)
Nameable(arg, cwd) == CASE arg \in {"absolute_file", "parent_dir_absolute", "root_absolute"} -> TRUE
                        [] arg = "root_dot" -> cwd = "root"
                        \* a relative path may climb out of the working directory with ".." segments
                        [] arg \in {"relative_file", "parent_dir_relative"} -> TRUE
CheckNaming == { <<a, c, q>> \in ArgForms \X CwdForms \X BOOLEAN : Nameable(a, c) }
VARIABLE nm
Init == nm \in CheckNaming
Next == UNCHANGED nm
Spec == Init /\ [][Next]_nm
=============================================================================
