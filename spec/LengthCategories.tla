-------------------------- MODULE LengthCategories --------------------------
(***************************************************************************)
(* The four length categories and what is derived from them for a list of  *)
(* function lengths (no constants, no variables; shared by Thresholds.tla, *)
(* Codebase.tla, Render.tla, ...).                                         *)
(***************************************************************************)
EXTENDS Categories, Sequences

RECURSIVE SumSeq(_)
SumSeq(s) == IF s = <<>> THEN 0 ELSE Head(s) + SumSeq(Tail(s))
Profile(ls) == [c \in 1..4 |-> SumSeq(SelectSeq(ls, LAMBDA L : Category(L) = c))]
Counts(ls)  == [c \in 1..4 |-> Len(SelectSeq(ls, LAMBDA L : Category(L) = c))]

(* descending insertion sort (stable), as sorted(..., reverse=True) - ties keep source order *)
RECURSIVE InsertDesc(_, _)
InsertDesc(x, s) == IF s = <<>> THEN <<x>>
                    ELSE IF x > Head(s) THEN <<x>> \o s ELSE <<Head(s)>> \o InsertDesc(x, Tail(s))
RECURSIVE SortDesc(_)
SortDesc(s) == IF s = <<>> THEN <<>> ELSE InsertDesc(s[Len(s)], SortDesc(SubSeq(s, 1, Len(s) - 1)))
=============================================================================
