-------------------------- MODULE FindAllLeftmost --------------------------
(***************************************************************************)
(* A repaired DESIGN for matcher.find_all, kept as documentation of the    *)
(* open finding F10-C14: a scan position, one attempt at a time, leftmost  *)
(* first.  TLC shows it satisfies every clause of C14 (Sound, Longest,     *)
(* Ordered, Covers, IsRef).  It is NOT what the code does: the repository's *)
(* own test tests/languages/test_Java.py::test_anonymous_class relies on   *)
(* an inner, earlier-finishing match evicting the enclosing attempt        *)
(* (a method of an anonymous class inside a call's parentheses), so the    *)
(* code keeps the parallel algorithm modelled in FindAll.tla.              *)
(***************************************************************************)
EXTENDS Regex, TLC
CONSTANTS Sigma, MaxSize, MaxLen

VARIABLES re, w, idx, end, phase, matches
vars == <<re, w, idx, end, phase, matches>>

Words == UNION { [1..n -> Sigma] : n \in 0..MaxLen }

Init == /\ re \in { r \in AllAST(Sigma, MaxSize) : ~Nullable(r) }
        /\ w \in Words
        /\ idx = 0 /\ end = 0 /\ phase = "scan" /\ matches = <<>>

StartAttempt == /\ phase = "scan" /\ idx < Len(w)
                /\ phase' = "attempt" /\ end' = idx
                /\ UNCHANGED <<re, w, idx, matches>>
Consume == /\ phase = "attempt" /\ end < Len(w) /\ Viable(re, Sub(w, idx, end + 1))
           /\ end' = end + 1
           /\ UNCHANGED <<re, w, idx, phase, matches>>
Stopped == phase = "attempt" /\ (IF end = Len(w) THEN TRUE ELSE ~Viable(re, Sub(w, idx, end + 1)))
Commit  == /\ Stopped /\ InL(re, Sub(w, idx, end))
           /\ matches' = Append(matches, <<idx, end>>)
           /\ idx' = IF end > idx THEN end ELSE idx + 1
           /\ phase' = "scan"
           /\ UNCHANGED <<re, w, end>>
Abandon == /\ Stopped /\ ~InL(re, Sub(w, idx, end))
           /\ idx' = idx + 1 /\ phase' = "scan"
           /\ UNCHANGED <<re, w, end, matches>>
Done == /\ phase = "scan" /\ idx >= Len(w) /\ phase' = "done"
        /\ UNCHANGED <<re, w, idx, end, matches>>
Next == StartAttempt \/ Consume \/ Commit \/ Abandon \/ Done
Spec == Init /\ [][Next]_vars

(* C14, clause by clause, on the result *)
Finished == phase = "done"
Sound    == Finished => InBounds(w, matches) /\ AreWords(re, w, matches)
Longest  == Finished => AreLongest(re, w, matches)
Ordered  == Finished => OrderedDisjoint(matches)
Covers   == Finished => Complete(re, w, matches)
IsRef    == Finished => matches = SearchRef(re, w)
(* while running: committed matches never extend past the scan position *)
Progress == \A k \in 1..Len(matches) : matches[k][2] <= idx
=============================================================================
