----------------------------- MODULE Thresholds -----------------------------
(***************************************************************************)
(* C02 - length thresholds and the refactoring alarm.                      *)
(*                                                                         *)
(* Reference: Category(L) and everything derived from it - the quality     *)
(* profile (lines of code per category), the count profile, the per-       *)
(* language hard-to-maintain / unmaintainable counters, colour, symbol,    *)
(* the findings list, and what `check` lists, counts, prints and returns.  *)
(*                                                                         *)
(* State machine: a codebase grows one function at a time                  *)
(* (AddFunction(file, L)); funcs is the list of <<file, length>> in the    *)
(* order added.  Every reachable state carries the expected observables as *)
(* the ghost variable exp; vf/props/c02.py builds the same codebase for    *)
(* real (source files whose functions have exactly these lengths) and      *)
(* compares every output of the code with exp.                             *)
(***************************************************************************)
EXTENDS LengthCategories, FiniteSets, TLC

CONSTANTS Files,        \* file ids; FileLang[f] is its language
          Lengths,      \* lengths a single AddFunction may choose
          MaxFuncs

LensOf(fs, f) == LET sel == SelectSeq(fs, LAMBDA x : x[1] = f) IN [i \in 1..Len(sel) |-> sel[i][2]]
AllLens(fs) == [i \in 1..Len(fs) |-> fs[i][2]]

(* what `check` must do for a codebase fs *)
CheckListing(fs, f) == SortDesc(SelectSeq(LensOf(fs, f), IsFinding))      \* longest first per file
CheckCount(fs) == Len(SelectSeq(AllLens(fs), IsFinding))
CheckExit(fs) == IF \E i \in 1..Len(fs) : fs[i][2] > 60 THEN 1 ELSE 0
CheckSilentWhenQuiet(fs) == CheckCount(fs) = 0

Expected(fs) ==
  [ profile  |-> Profile(AllLens(fs)),
    counts   |-> Counts(AllLens(fs)),
    fileProfile |-> [f \in Files |-> Profile(LensOf(fs, f))],
    fileCounts  |-> [f \in Files |-> Counts(LensOf(fs, f))],     \* what the overview printed by `scan` shows per language (one file per language)
    findings |-> SortDesc(SelectSeq(AllLens(fs), IsFinding)),
    listing  |-> [f \in Files |-> CheckListing(fs, f)],
    count    |-> CheckCount(fs),
    exit     |-> CheckExit(fs),
    silent   |-> CheckSilentWhenQuiet(fs) ]

VARIABLES funcs, exp
vars == <<funcs, exp>>
Init == funcs = <<>> /\ exp = Expected(funcs)
AddFunction(f, L) == /\ Len(funcs) < MaxFuncs
                     /\ funcs' = Append(funcs, <<f, L>>)
                     /\ exp' = Expected(funcs')
Next == \E f \in Files, L \in Lengths : AddFunction(f, L)
Spec == Init /\ [][Next]_vars

(* sanity of the reference itself *)
ProfilePartitions == SumSeq(exp.profile) = SumSeq(AllLens(funcs))
CountsPartition   == SumSeq(exp.counts) = Len(funcs)
ExitIffUnmaintainable == (exp.exit = 1) = (exp.counts[4] > 0)
CountIsHardPlusUnmaintainable == exp.count = exp.counts[3] + exp.counts[4]
FindingsAreTheLongOnes == Len(exp.findings) = exp.count /\ \A i \in 1..Len(exp.findings) : exp.findings[i] > 30
BoundariesExact == /\ Category(15) = 1 /\ Category(16) = 2 /\ Category(30) = 2 /\ Category(31) = 3
                   /\ Category(60) = 3 /\ Category(61) = 4
=============================================================================
