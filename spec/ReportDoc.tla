----------------------------- MODULE ReportDoc -----------------------------
(***************************************************************************)
(* C08 - the report document is valid JSON and round-trips.                *)
(*                                                                         *)
(* A report VALUE is modelled structurally; every string-valued field      *)
(* ranges over string CLASSES (plain, empty, double quote, backslash,      *)
(* backslash-quote, newline, tab, control character, non-ASCII BMP, astral,*)
(* trailing backslash, JSON-looking text): TLC cannot see characters, so   *)
(* the harness (vf/props/c08.py) instantiates each class with concrete     *)
(* strings, runs the real ReportWriter / json / ReportReader, abstracts    *)
(* the strings it gets back to class ids and lets ReportDocTrace.tla judge *)
(* the round-trip laws stated here:                                        *)
(*    both documents parse; Parse(pretty) = Parse(compact);                *)
(*    Read(Write(r)) = r   on version, identifier, root, repository,       *)
(*      files in order with checksum, language, line total, measurements,  *)
(*      totals and folder profiles;                                        *)
(*    Write(Read(Write(r))) = Write(r)  up to the timestamp.               *)
(* The state machine builds report values: a report grows file by file     *)
(* (AddFile), gets / loses a repository, a version, a root; at most        *)
(* MaxSpecial fields carry a non-plain class at once.                      *)
(***************************************************************************)
EXTENDS Naturals, Sequences, FiniteSets, TLC

CONSTANTS Classes,        \* string classes; "plain" must be one of them
          PathShapes,     \* where a file sits: "top", "nested", "deep", "sibling"
          MaxFiles, MaxMeas, MaxSpecial

None == "none"
VARIABLES rep
vars == <<rep>>

Special(c) == IF c \in {"plain", None} THEN 0 ELSE 1
RECURSIVE SumFiles(_)
(* a file with two or more measurements comes in three layouts of their positions - in source order, in reverse  *)
(* order, all starting at one and the same position (a report stores the list it was given: the reader and the  *)
(* writer keep its order whatever the positions say); such a file spends one unit of the budget                  *)
Layouts == {"source", "reversed", "tied"}
MeasSpecial(f) == IF f.nmeas >= 2 THEN 1 ELSE 0
SumFiles(fs) == IF fs = <<>> THEN 0 ELSE Special(Head(fs).pathC) + Special(Head(fs).nameC) + MeasSpecial(Head(fs)) + SumFiles(Tail(fs))
NoRepo == <<>>
RepoSpecial(r) == IF r = NoRepo THEN 0 ELSE Special(r[1]) + Special(r[2]) + Special(r[3])
Specials(r) == Special(r.version) + Special(r.root) + RepoSpecial(r.repo) + SumFiles(r.files)
Within(r) == Specials(r) <= MaxSpecial

Init == rep = [version |-> "plain", root |-> "plain", repo |-> NoRepo, files |-> <<>>, sums |-> "distinct"]
AddFile(shape, pc, nc, n, lay) ==
  /\ Len(rep.files) < MaxFiles
  /\ (n < 2 => lay = "source")
  /\ \A i \in 1..Len(rep.files) : ~(rep.files[i].shape = shape /\ rep.files[i].pathC = pc)      \* distinct paths
  /\ LET r == [rep EXCEPT !.files = Append(@, [shape |-> shape, pathC |-> pc, nameC |-> nc, nmeas |-> n, layout |-> lay])]
     IN  Within(r) /\ rep' = r
SetRepo(o, n, b) == /\ rep.repo = NoRepo
                    /\ LET r == [rep EXCEPT !.repo = <<o, n, b>>] IN Within(r) /\ rep' = r
SetVersion(c) == /\ rep.version = "plain" /\ c # "plain"
                 /\ LET r == [rep EXCEPT !.version = c] IN Within(r) /\ rep' = r
(* several files carrying one and the same checksum (equal bytes under different names / languages): a checksum *)
(* does not determine the measurements                                                                        *)
ShareChecksum == /\ rep.sums = "distinct" /\ Len(rep.files) >= 2 /\ rep' = [rep EXCEPT !.sums = "same"]
SetRoot(c) == /\ rep.root = "plain" /\ c # "plain"
              /\ LET r == [rep EXCEPT !.root = c] IN Within(r) /\ rep' = r
Next == \/ \E s \in PathShapes, pc \in Classes, nc \in Classes, n \in 0..MaxMeas, lay \in Layouts : AddFile(s, pc, nc, n, lay)
        \/ \E o \in Classes, n \in Classes, b \in Classes : SetRepo(o, n, b)
        \/ \E c \in Classes \cup {None} : SetVersion(c)
        \/ \E c \in Classes : SetRoot(c)
        \/ ShareChecksum
Spec == Init /\ [][Next]_vars
BudgetRespected == Within(rep)

(* ---- the laws, over projections of real reports (records with the fields below) ---- *)
(*  v = [version, uuid, root, repo, files: <<[path, checksum, language, loc, meas]>>, totals, tree] *)
SameVersion(a, b) == a.version = b.version
SameIdentity(a, b) == a.uuid = b.uuid /\ a.root = b.root
SameRepository(a, b) == a.repo = b.repo
SameFileOrder(a, b) == Len(a.files) = Len(b.files) /\ \A i \in 1..Len(a.files) : a.files[i].path = b.files[i].path
SameFiles(a, b) == SameFileOrder(a, b) /\ \A i \in 1..Len(a.files) : a.files[i] = b.files[i]
SameTotals(a, b) == a.totals = b.totals
SameFolderProfiles(a, b) == a.tree = b.tree
RoundTrip(a, b) == SameVersion(a, b) /\ SameIdentity(a, b) /\ SameRepository(a, b) /\ SameFiles(a, b) /\ SameTotals(a, b) /\ SameFolderProfiles(a, b)
FirstFailingLaw(a, b) ==
  CASE ~SameVersion(a, b) -> "ReadBackVersion"
    [] ~SameIdentity(a, b) -> "ReadBackIdentifierAndRoot"
    [] ~SameRepository(a, b) -> "ReadBackRepository"
    [] ~SameFileOrder(a, b) -> "ReadBackFilesInOrder"
    [] ~SameFiles(a, b) -> "ReadBackChecksumLanguageLocMeasurements"
    [] ~SameTotals(a, b) -> "ReadBackTotals"
    [] ~SameFolderProfiles(a, b) -> "ReadBackFolderProfiles"
    [] OTHER -> "none"
=============================================================================
