---------------------------- MODULE MatcherTrace ----------------------------
(***************************************************************************)
(* Acceptor (role A) for recorded calls of the real gsm engine: one NDJSON *)
(* line per public call (matcher.match / nfa_match / starts_with / a       *)
(* stepped Pattern / find_all) on inputs TLC did not choose.  Each event   *)
(* is checked against Regex.tla; every event is consumed, a rejected one   *)
(* prints  <<"REJECT", id, clause>>  naming the first failing conjunct.    *)
(*  kind "matchers": re, w, match, nfa, sw, alive[k], acc[k] (per prefix),  *)
(*                   shared = <<match, nfa_match, starts_with>> asked of a  *)
(*                   pattern whose sub-patterns are OBJECTS shared with the *)
(*                   patterns of earlier calls (a pattern is a value);      *)
(*                   pred = the same three asked of the pattern written    *)
(*                   with a fresh predicate object for every atom          *)
(*  kind "search"  : re, w, ms = <<<<start, end>>..>>, toks[i] = recorded  *)
(*  exc # ""       : the call raised / timed out - no action accepts that  *)
(***************************************************************************)
EXTENDS Regex, TLC, Json, IOUtils, Integers

Calls == ndJsonDeserialize(IOEnv.TRACE_FILE)

VARIABLE i

Prefix(w, k) == SubSeq(w, 1, k)

MatchersClause(c) ==
  CASE c.exc # "" -> "NormalReturn"
    [] c.match # InL(c.re, c.w) -> "MatchIsMembership"
    [] c.nfa # InL(c.re, c.w) -> "NfaMatchIsMembership"
    [] c.sw # ShortestPrefix(c.re, c.w) -> "StartsWithIsShortestPrefix"
    [] c.shared # <<InL(c.re, c.w), InL(c.re, c.w), ShortestPrefix(c.re, c.w)>> -> "SharedSubPatterns"
    [] c.pred # <<InL(c.re, c.w), InL(c.re, c.w), ShortestPrefix(c.re, c.w)>> -> "AtomsAsPredicateObjects"
    [] \E k \in 1..Len(c.alive) : c.alive[k] # Viable(c.re, Prefix(c.w, k)) -> "PatternAliveIsViable"
    [] \E k \in 1..Len(c.acc) : c.alive[k] /\ c.acc[k] # InL(c.re, Prefix(c.w, k)) -> "PatternAcceptingIsMembership"
    [] OTHER -> "none"

SearchClause(c) ==
  CASE c.exc # "" -> "NormalReturn"
    [] ~InBounds(c.w, c.ms) -> "InBounds"
    [] \E k \in 1..Len(c.ms) : c.toks[k] # Sub(c.w, c.ms[k][1], c.ms[k][2]) -> "RecordsItsItems"
    [] OTHER -> FirstFailingSearchClause(c.re, c.w, c.ms)

Clause(c) == IF c.kind = "matchers" THEN MatchersClause(c) ELSE SearchClause(c)

Init == i = 1
Next == /\ i <= Len(Calls)
        /\ LET cl == Clause(Calls[i]) IN
             IF cl = "none" THEN TRUE ELSE PrintT(<<"REJECT", Calls[i].id, cl>>)
        /\ i' = i + 1
Spec == Init /\ [][Next]_i
AllConsumed == TLCGet("stats").diameter - 1 = Len(Calls)
=============================================================================
