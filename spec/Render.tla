------------------------------- MODULE Render -------------------------------
(***************************************************************************)
(* C18 - rendered report, diff and findings show exactly the stored        *)
(* numbers.                                                                *)
(*                                                                         *)
(* A report is abstracted to its per-language totals: a function from the  *)
(* languages present to a FIGURE profile id; Fig[id] = <<files, functions, *)
(* lines of code, hard-to-maintain, unmaintainable>> is a constant table   *)
(* read off the real Report objects the harness builds through             *)
(* Codebase.add_file (so the stored numbers are the code's own).           *)
(* The generator chooses a current report, optionally a previous one       *)
(* (languages added / removed / changed / unchanged between the two), and  *)
(* a findings scenario (number of functions above 30 lines around the      *)
(* 10-row cut, full or not, with or without repository).                   *)
(* Reference: what the overview must show (ExpectedCell, row order by      *)
(* lines of code, totals) and what the findings list must show.            *)
(***************************************************************************)
EXTENDS Naturals, Integers, Sequences, FiniteSets, TLC

CONSTANTS Langs,          \* language ids
          CurFigs,        \* figure ids a language of the current report may have
          PrevFigs,       \* figure ids a language of the previous report may have
          Fig,            \* figure table: id -> <<files, functions, loc, hard, unm>>
          FindingCounts   \* numbers of functions above 30 lines to try

Absent == "absent"
VARIABLES cur, prev, hasPrev, nfind, full, repo
vars == <<cur, prev, hasPrev, nfind, full, repo>>

Init == /\ cur \in [Langs -> CurFigs \cup {Absent}] /\ (\E l \in Langs : cur[l] # Absent)
        /\ hasPrev \in BOOLEAN
        /\ prev \in [Langs -> PrevFigs \cup {Absent}]
        /\ (~hasPrev => prev = [l \in Langs |-> Absent])
        /\ nfind = 0 /\ full = FALSE /\ repo = FALSE
(* the findings dimension is independent of the overview: explored from one overview only *)
Findings(n, f, r) == /\ nfind = 0 /\ ~full /\ ~repo /\ ~hasPrev /\ (\A l \in Langs : cur[l] = CHOOSE x \in CurFigs : TRUE)
                     /\ nfind' = n /\ full' = f /\ repo' = r /\ UNCHANGED <<cur, prev, hasPrev>>
Next == \E n \in FindingCounts, f \in BOOLEAN, r \in BOOLEAN : (n > 0 \/ f \/ r) /\ Findings(n, f, r)
Spec == Init /\ [][Next]_vars

(* ---- reference: overview ---- *)
Present(rep) == { l \in Langs : rep[l] # Absent }
Figures(rep, l) == Fig[rep[l]]
RECURSIVE SumOver(_, _, _)
SumOver(S, rep, k) == IF S = {} THEN 0 ELSE LET l == CHOOSE x \in S : TRUE IN Figures(rep, l)[k] + SumOver(S \ {l}, rep, k)
Totals(rep) == [k \in 1..5 |-> SumOver(Present(rep), rep, k)]
(* a cell is <<n, d>>: the number shown and the annotated delta, 0 = no annotation *)
ExpectedLangCell(c, p, hp, l, k) ==
  IF hp /\ p[l] # Absent THEN <<Figures(c, l)[k], Figures(c, l)[k] - Figures(p, l)[k]>>
  ELSE <<Figures(c, l)[k], 0>>
ExpectedTotalCell(c, p, hp, k) == IF hp THEN <<Totals(c)[k], Totals(c)[k] - Totals(p)[k]>> ELSE <<Totals(c)[k], 0>>
(* rows must come in order of lines of code, largest first; ties in any order *)
OrderedByLoc(c, rowLangs) == \A i \in 1..(Len(rowLangs) - 1) : Figures(c, rowLangs[i])[3] >= Figures(c, rowLangs[i + 1])[3]

(* ---- reference: findings ---- *)
ShownFindings(n, f) == IF f \/ n <= 10 THEN n ELSE 10
MoreRows(n, f) == IF f \/ n <= 10 THEN 0 ELSE n - 10

(* sanity *)
TotalsAreSums == \A k \in 1..5 : Totals(cur)[k] >= 0
DeltaZeroIffEqual == \A l \in Present(cur), k \in 1..5 :
                        (hasPrev /\ prev[l] # Absent) => ((ExpectedLangCell(cur, prev, hasPrev, l, k)[2] = 0) = (Figures(cur, l)[k] = Figures(prev, l)[k]))
=============================================================================
