---------------------------- MODULE LiveCodebase ----------------------------
(***************************************************************************)
(* A Codebase object is not built once and read once: the scanner adds     *)
(* files one by one, callers ask the report questions in between (progress *)
(* displays, the cache-assisted scan that starts from a previous report),  *)
(* and a file entry may be put in again under the path it already has      *)
(* (`files[entry.path] = entry` replaces).  The other modules rebuild      *)
(* every state from scratch; this one keeps ONE live object and            *)
(* interleaves                                                             *)
(*    Add(p, ls, r)       add_file for a path not yet present              *)
(*    Replace(p, ls, r)   add_file for a path that is present              *)
(*    Aggregate(r)        Codebase.aggregate(), at most once                *)
(* each optionally followed by a read (r) of everything the report derives *)
(* from the measurements; the history ends with a read.  Reading is not    *)
(* writing: what a read returns is a function of the entries held at that  *)
(* moment, whatever was asked before.                                      *)
(*                                                                         *)
(* held   sequence of <<path id, lengths>> in dict order (a replaced path  *)
(*        keeps its position)                                              *)
(* hist   the operations so far - makes every history a distinct state, so *)
(*        that the dump of the final states is the set of behaviours       *)
(* exp    ghost: one expected observation per read, in order               *)
(* pure   no Replace so far.  Codebase.add_file keeps its per-language     *)
(*        counters and the folder tree incrementally and does not retract  *)
(*        a replaced entry from them (C07 quantifies over SETS of files);  *)
(*        those observables are judged on pure histories only, everything  *)
(*        derived from `files` on all of them.                             *)
(***************************************************************************)
EXTENDS LengthCategories, PercentAlgo, FiniteSets, TLC

CONSTANTS NPaths, MeasLists, MaxOps
StdLiveLists  == { <<10>>, <<31, 61>>, <<100>>, <<16, 10, 10>> }
StdLiveLists3 == { <<10>>, <<31, 61>>, <<16, 100>> }

VARIABLES held, hist, exp, pure
vars == <<held, hist, exp, pure>>

RECURSIVE Flat(_)
Flat(h) == IF h = <<>> THEN <<>> ELSE Head(h)[2] \o Flat(Tail(h))
Holds(h, p) == \E i \in 1..Len(h) : h[i][1] = p
Observation(h) ==
  LET ls == Flat(h) IN
  [ measurements |-> ls,
    profile  |-> Profile(ls),
    pct      |-> Algo(Profile(ls)),
    findings |-> SortDesc(SelectSeq(ls, IsFinding)),
    hard     |-> Counts(ls)[3],
    unm      |-> Counts(ls)[4] ]

Init == held = <<>> /\ hist = <<>> /\ exp = <<>> /\ pure = TRUE
Step(p, ls, r) ==
  /\ Len(hist) < MaxOps
  /\ IF Holds(held, p)
     THEN /\ \E i \in 1..Len(held) : held[i][1] = p /\ held[i][2] # ls
          /\ held' = [i \in 1..Len(held) |-> IF held[i][1] = p THEN <<p, ls>> ELSE held[i]]
          /\ pure' = FALSE
     ELSE held' = Append(held, <<p, ls>>) /\ UNCHANGED pure
  /\ hist' = Append(hist, <<p, ls, r>>)
  /\ exp' = IF r THEN Append(exp, Observation(held')) ELSE exp
(* Codebase.aggregate() (the folder profiles are summed up - what a scan does when it has walked the tree) somewhere in  *)
(* the history, at most once: files may still be added afterwards.  It is recorded as path 0; nothing a read returns   *)
(* depends on it.                                                                                                   *)
Aggregate(r) ==
  /\ Len(hist) < MaxOps /\ held # <<>>
  /\ \A i \in 1..Len(hist) : hist[i][1] # 0
  /\ hist' = Append(hist, <<0, <<>>, r>>)
  /\ exp' = IF r THEN Append(exp, Observation(held)) ELSE exp
  /\ UNCHANGED <<held, pure>>
Next == \/ \E p \in 1..NPaths, ls \in MeasLists, r \in BOOLEAN : Step(p, ls, r)
        \/ \E r \in BOOLEAN : Aggregate(r)
Spec == Init /\ [][Next]_vars

(* sanity of the reference *)
ReadsCount == Len(exp) = Cardinality({ i \in 1..Len(hist) : hist[i][3] })
DistinctPaths == \A i, j \in 1..Len(held) : held[i][1] = held[j][1] => i = j
ObservationPartitions == \A i \in 1..Len(exp) : /\ SumSeq(exp[i].profile) = SumSeq(exp[i].measurements)
                                                 /\ exp[i].pct[1] + exp[i].pct[2] + exp[i].pct[3] + exp[i].pct[4] = 100
                                                 /\ Len(exp[i].findings) = exp[i].hard + exp[i].unm
(* reading is not writing: an operation without a read leaves the expectations alone, one with a read adds exactly one *)
ReadIsNotWrite == [][ Len(exp') \in {Len(exp), Len(exp) + 1} /\ \A i \in 1..Len(exp) : exp'[i] = exp[i] ]_vars
(* a replaced path keeps its place and is held once *)
ReplaceKeepsPlace == [][ Len(held') \in {Len(held), Len(held) + 1} /\ \A i \in 1..Len(held) : held'[i][1] = held[i][1] ]_vars
=============================================================================
