------------------------- MODULE NestedSearchTrace -------------------------
(***************************************************************************)
(* Acceptor (role A) for recorded calls of the real scope_utils.get_headers *)
(* on inputs TLC did not choose (and on those where the code's result is   *)
(* not NestedSearch.tla's).  One NDJSON line per call:                     *)
(*   id, re, fb (a pattern tree or <<"none">>), w, hs = <<<<start, end>>>> *)
(*   names[i] = the token recorded as header i's name, exc                 *)
(* Judged declaratively (no stack, no order of the search):                *)
(*   NormalReturn                                                          *)
(*   HInBounds, HWords, HFollowed   every header is a word of the pattern  *)
(*                                  inside the text, followed by a body    *)
(*   HOrder        by position, pairwise disjoint                          *)
(*   HNames        the recorded name is the first item of the header       *)
(*   HCovers       a position where greedy matching finds a header is      *)
(*                 covered by a reported header, unless a candidate that   *)
(*                 is not followed by a body starts before it and ends     *)
(*                 inside its span (the search descends into that          *)
(*                 candidate and cannot see past its end)                  *)
(*   HNotInsideHeader  nothing is reported from inside a candidate that IS *)
(*                 a header: a reported header that lies strictly inside   *)
(*                 another pattern word followed by a body must not be     *)
(*                 enclosed by a reported one (= HOrder) - kept as comment *)
(***************************************************************************)
EXTENDS Regex, TLC, Json, IOUtils, Integers

Calls == ndJsonDeserialize(IOEnv.TRACE_FILE)
VARIABLE i

NoFb == <<"none">>
FollowedOK(c, e) == IF c.fb = NoFb THEN TRUE ELSE ShortestPrefix(c.fb, Sub(c.w, e, Len(c.w))) > 0
HeaderAt(c, s) == GreedySucceeds(c.re, c.w, s) /\ FollowedOK(c, GreedyEnd(c.re, c.w, s))
(* the candidate that hides s is, at the outermost level where the cut happens, a greedy match of the whole word *)
CutByCandidate(c, s) == \E cs \in 0..(s - 1) : LET ce == GreedyEnd(c.re, c.w, cs) IN
                           /\ GreedySucceeds(c.re, c.w, cs) /\ s < ce /\ ce < GreedyEnd(c.re, c.w, s)
                           /\ ~FollowedOK(c, ce)

Clause(c) ==
  CASE c.exc # "" -> "NormalReturn"
    [] ~InBounds(c.w, c.hs) -> "HInBounds"
    [] ~AreWords(c.re, c.w, c.hs) -> "HWords"
    [] \E k \in 1..Len(c.hs) : ~FollowedOK(c, c.hs[k][2]) -> "HFollowed"
    [] ~OrderedDisjoint(c.hs) -> "HOrder"
    [] \E k \in 1..Len(c.hs) : c.names[k] # c.w[c.hs[k][1] + 1] -> "HNames"
    [] \E s \in 0..(Len(c.w) - 1) : HeaderAt(c, s) /\ ~Covered(c.hs, s) /\ ~CutByCandidate(c, s) -> "HCovers"
    [] OTHER -> "none"

Init == i = 1
Next == /\ i <= Len(Calls)
        /\ LET cl == Clause(Calls[i]) IN
             IF cl = "none" THEN TRUE ELSE PrintT(<<"REJECT", Calls[i].id, cl>>)
        /\ i' = i + 1
Spec == Init /\ [][Next]_i
AllConsumed == TLCGet("stats").diameter - 1 = Len(Calls)
=============================================================================
