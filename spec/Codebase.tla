------------------------------ MODULE Codebase ------------------------------
(***************************************************************************)
(* C07 - totals, profiles and the folder tree agree with the measurements. *)
(*                                                                         *)
(* Implementation-shaped model of codelimit/common/Codebase.py:            *)
(*   AddFile(e)   Codebase.add_file: files[path] := e (insertion order),   *)
(*                totals[e.lang] updated (LanguageTotals.add), the parent  *)
(*                folder created on demand by the recursive add_folder     *)
(*                (which registers each new folder with ITS parent), the   *)
(*                file appended to its folder's entries                    *)
(*   Aggregate    Codebase.aggregate: depth-first merge of profiles        *)
(* A path is a sequence of components (the code splits on os.path.sep); a  *)
(* folder key is the sequence of its directory names, <<>> is "./".        *)
(* The invariants are stated from the per-file data only (reference), not  *)
(* from the incremental bookkeeping.  Every reachable state = every        *)
(* insertion order of every set of up to MaxFiles files.                   *)
(***************************************************************************)
EXTENDS LengthCategories, FiniteSets, TLC

CONSTANTS DirNames,      \* directory name pool
          MaxDepth,      \* maximal number of directory components
          FileLang,      \* function: file base name -> language
          MeasLists,     \* set of measurement lists (sequences of lengths) a file may carry
          MaxFiles

(* standard instantiations (a .cfg file cannot write functions): FileLang <- StdFileLang2 etc. *)
StdFileLang2 == ("a0.py" :> "Python") @@ ("g.c" :> "C")      \* a0.py: a file whose name starts with the directory name a
StdFileLang3 == ("a0.py" :> "Python") @@ ("g.c" :> "C") @@ ("h.py" :> "Python")
StdMeasLists == { <<>>, <<10, 31>>, <<16, 61>> }
StdMeasLists4 == { <<>>, <<15>>, <<30, 31>>, <<60, 61, 2>> }

Front(s) == SubSeq(s, 1, Len(s) - 1)
Last(s)  == s[Len(s)]
IsPrefix(p, s) == Len(p) <= Len(s) /\ SubSeq(s, 1, Len(p)) = p

Dirs == UNION { [1..n -> DirNames] : n \in 0..MaxDepth }
AllPaths == { Append(d, f) : d \in Dirs, f \in DOMAIN FileLang }
Entries == { [path |-> p, lang |-> FileLang[Last(p)], lens |-> m] : p \in AllPaths, m \in MeasLists }
Loc(e) == SumSeq(e.lens)

EmptyFolder == [entries |-> <<>>, profile |-> <<0, 0, 0, 0>>]
ZeroTotals == [files |-> 0, loc |-> 0, functions |-> 0, hard |-> 0, unm |-> 0]
Merge(a, b) == [c \in 1..4 |-> a[c] + b[c]]

VARIABLES files, tree, treeOrder, totals, aggregated
vars == <<files, tree, treeOrder, totals, aggregated>>

Init == /\ files = <<>>
        /\ tree = (<<>> :> EmptyFolder)
        /\ treeOrder = << <<>> >>
        /\ totals = <<>>                      \* sequence of <<lang, totals record>> in dict order
        /\ aggregated = FALSE

(* Codebase.add_folder *)
RECURSIVE AddFolder(_, _, _)
AddFolder(tr, ord, p) ==
  IF p = <<>> \/ p \in DOMAIN tr THEN <<tr, ord>>
  ELSE LET tr1 == [k \in DOMAIN tr \cup {p} |-> IF k = p THEN EmptyFolder ELSE tr[k]]
           r   == AddFolder(tr1, Append(ord, p), Front(p))
       IN  << [r[1] EXCEPT ![Front(p)].entries = Append(@, <<"folder", Last(p)>>)], r[2] >>

HasLang(tot, l) == \E i \in 1..Len(tot) : tot[i][1] = l
AddTotals(tot, e) ==
  LET t0 == IF HasLang(tot, e.lang) THEN tot ELSE Append(tot, <<e.lang, ZeroTotals>>)
      cnt == Counts(e.lens)
  IN  [i \in 1..Len(t0) |->
         IF t0[i][1] # e.lang THEN t0[i]
         ELSE <<e.lang, [files |-> t0[i][2].files + 1, loc |-> t0[i][2].loc + Loc(e),
                         functions |-> t0[i][2].functions + Len(e.lens),
                         hard |-> t0[i][2].hard + cnt[3], unm |-> t0[i][2].unm + cnt[4]]>>]

AddFile(e) ==
  /\ ~aggregated /\ Len(files) < MaxFiles
  /\ \A i \in 1..Len(files) : files[i].path # e.path         \* a set of files: distinct paths
  /\ files' = Append(files, e)
  /\ totals' = AddTotals(totals, e)
  /\ LET parent == Front(e.path)
         r == AddFolder(tree, treeOrder, parent)
     IN  /\ tree' = [r[1] EXCEPT ![parent].entries = Append(@, <<"file", Last(e.path)>>)]
         /\ treeOrder' = r[2]
  /\ UNCHANGED aggregated

FileAt(p) == CHOOSE i \in 1..Len(files) : files[i].path = p
(* Codebase.aggregate: aggregate_folder(path) *)
RECURSIVE AggEntries(_, _, _)
AggFolder(tr, key) == AggEntries(tr, key, tr[key].entries)
AggEntries(tr, key, es) ==
  IF es = <<>> THEN tr[key].profile
  ELSE LET e == Last(es)
           rest == AggEntries(tr, key, Front(es))
       IN  IF e[1] = "folder" THEN Merge(rest, AggFolder(tr, Append(key, e[2])))
           ELSE Merge(rest, Profile(files[FileAt(Append(key, e[2]))].lens))
Aggregate ==
  /\ ~aggregated /\ aggregated' = TRUE
  /\ tree' = [k \in DOMAIN tree |-> [tree[k] EXCEPT !.profile = AggFolder(tree, k)]]
  /\ UNCHANGED <<files, treeOrder, totals>>

Next == (\E e \in Entries : AddFile(e)) \/ Aggregate
Spec == Init /\ [][Next]_vars

(***************************************************************************)
(* Reference: the clauses of C07 over an observed / modelled codebase      *)
(*   F   sequence of file entries [path, lang, lens]                       *)
(*   T   function folder key -> [entries, profile]                         *)
(*   Tot sequence of <<lang, [files, loc, functions, hard, unm]>>          *)
(***************************************************************************)
RECURSIVE SumFn(_, _)
SumFn(S, f) == IF S = {} THEN 0 ELSE LET x == CHOOSE x \in S : TRUE IN f[x] + SumFn(S \ {x}, f)
Idx(F) == 1..Len(F)
LangsOf(F) == { F[i].lang : i \in Idx(F) }
OfLang(F, l) == { i \in Idx(F) : F[i].lang = l }
CountOcc(s, x) == Cardinality({ i \in 1..Len(s) : s[i] = x })

TotalsLangs(F, Tot) == /\ { Tot[i][1] : i \in 1..Len(Tot) } = LangsOf(F)
                       /\ \A i, j \in 1..Len(Tot) : Tot[i][1] = Tot[j][1] => i = j
TotalsFiles(F, Tot) == \A i \in 1..Len(Tot) : Tot[i][2].files = Cardinality(OfLang(F, Tot[i][1]))
TotalsLoc(F, Tot)   == \A i \in 1..Len(Tot) : Tot[i][2].loc = SumFn(OfLang(F, Tot[i][1]), [x \in OfLang(F, Tot[i][1]) |-> SumSeq(F[x].lens)])
TotalsFunctions(F, Tot) == \A i \in 1..Len(Tot) : Tot[i][2].functions = SumFn(OfLang(F, Tot[i][1]), [x \in OfLang(F, Tot[i][1]) |-> Len(F[x].lens)])
TotalsHard(F, Tot) == \A i \in 1..Len(Tot) : Tot[i][2].hard = SumFn(OfLang(F, Tot[i][1]), [x \in OfLang(F, Tot[i][1]) |-> Counts(F[x].lens)[3]])
TotalsUnm(F, Tot)  == \A i \in 1..Len(Tot) : Tot[i][2].unm = SumFn(OfLang(F, Tot[i][1]), [x \in OfLang(F, Tot[i][1]) |-> Counts(F[x].lens)[4]])
FileProfilePartitionsLoc(F) == \A i \in Idx(F) : SumSeq(Profile(F[i].lens)) = SumSeq(F[i].lens)
Below(F, k) == { i \in Idx(F) : IsPrefix(k, Front(F[i].path)) }
ExpectedFolderProfile(F, k) == [c \in 1..4 |-> SumFn(Below(F, k), [x \in Below(F, k) |-> Profile(F[x].lens)[c]])]
FolderProfileIsSumBelow(F, T) == \A k \in DOMAIN T : T[k].profile = ExpectedFolderProfile(F, k)
WholeProfile(F) == [c \in 1..4 |-> SumFn(Idx(F), [x \in Idx(F) |-> Profile(F[x].lens)[c]])]
RootProfileIsWhole(F, T) == T[<<>>].profile = WholeProfile(F)
GrandTotals(F, Tot) ==
  LET D == 1..Len(Tot) IN
  /\ SumFn(D, [i \in D |-> Tot[i][2].files]) = Len(F)
  /\ SumFn(D, [i \in D |-> Tot[i][2].loc]) = SumFn(Idx(F), [x \in Idx(F) |-> SumSeq(F[x].lens)])
  /\ SumFn(D, [i \in D |-> Tot[i][2].functions]) = SumFn(Idx(F), [x \in Idx(F) |-> Len(F[x].lens)])
NeededFolders(F) == UNION { { SubSeq(F[i].path, 1, n) : n \in 0..(Len(F[i].path) - 1) } : i \in Idx(F) } \cup {<<>>}
FoldersExactlyNeeded(F, T) == DOMAIN T = NeededFolders(F)
EveryFileOnceUnderParent(F, T) ==
  /\ \A i \in Idx(F) : Front(F[i].path) \in DOMAIN T /\ CountOcc(T[Front(F[i].path)].entries, <<"file", Last(F[i].path)>>) = 1
  /\ \A k \in DOMAIN T : \A j \in 1..Len(T[k].entries) :
        T[k].entries[j][1] = "file" => \E i \in Idx(F) : F[i].path = Append(k, T[k].entries[j][2])
EveryFolderOnceUnderParent(T) ==
  /\ \A k \in DOMAIN T : k # <<>> => Front(k) \in DOMAIN T /\ CountOcc(T[Front(k)].entries, <<"folder", Last(k)>>) = 1
  /\ \A k \in DOMAIN T : \A j \in 1..Len(T[k].entries) : T[k].entries[j][1] = "folder" => Append(k, T[k].entries[j][2]) \in DOMAIN T

StructureOK(F, T, Tot) == /\ TotalsLangs(F, Tot) /\ TotalsFiles(F, Tot) /\ TotalsLoc(F, Tot) /\ TotalsFunctions(F, Tot)
                          /\ TotalsHard(F, Tot) /\ TotalsUnm(F, Tot) /\ FileProfilePartitionsLoc(F)
                          /\ FoldersExactlyNeeded(F, T) /\ EveryFileOnceUnderParent(F, T) /\ EveryFolderOnceUnderParent(T)
FirstFailingClause(F, T, Tot, agg) ==
  CASE ~TotalsLangs(F, Tot) -> "TotalsLanguages"
    [] ~TotalsFiles(F, Tot) -> "TotalsFiles"
    [] ~TotalsLoc(F, Tot) -> "TotalsLoc"
    [] ~TotalsFunctions(F, Tot) -> "TotalsFunctions"
    [] ~TotalsHard(F, Tot) -> "TotalsHard"
    [] ~TotalsUnm(F, Tot) -> "TotalsUnmaintainable"
    [] ~FoldersExactlyNeeded(F, T) -> "FoldersExactlyNeeded"
    [] ~EveryFileOnceUnderParent(F, T) -> "EveryFileOnceUnderParent"
    [] ~EveryFolderOnceUnderParent(T) -> "EveryFolderOnceUnderParent"
    [] ~GrandTotals(F, Tot) -> "GrandTotals"
    [] agg /\ ~FolderProfileIsSumBelow(F, T) -> "FolderProfileIsSumBelow"
    [] agg /\ ~RootProfileIsWhole(F, T) -> "RootProfileIsWhole"
    [] OTHER -> "none"

(* invariants of the model *)
ModelStructureOK == StructureOK(files, tree, totals)
ModelProfilesOK == aggregated => FolderProfileIsSumBelow(files, tree)
ModelRootIsWhole == aggregated => RootProfileIsWhole(files, tree)
ModelGrandTotals == GrandTotals(files, totals)
FilesKeepInsertionOrder == [][ \A i \in 1..Len(files) : files'[i] = files[i] ]_vars
TreeOrderListsEveryFolderOnce == /\ { treeOrder[i] : i \in 1..Len(treeOrder) } = DOMAIN tree
                                 /\ Len(treeOrder) = Cardinality(DOMAIN tree)
=============================================================================
