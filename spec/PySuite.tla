------------------------------ MODULE PySuite ------------------------------
(***************************************************************************)
(* Implementation-shaped model of languages/Python.py:extract_blocks (after *)
(* the `fix:` commits 7a17a9e, 1c6e7f5, 562bffc): which lines form the     *)
(* suite of a `def`.                                                       *)
(* A file is a sequence of LOGICAL lines <<indentation, kind>>:            *)
(*   "def"      a header complete on its line (`def f(a):`)                *)
(*   "defopen"  a header whose colon comes later (`def f(a,` / `def f() -> *)
(*              Dict[`), continued by one or more                          *)
(*   "cont"     lines inside the open brackets - their indentation is free *)
(*              in Python - the last of which holds the colon              *)
(*   "code"     any other statement                                        *)
(* As coded: the header's indentation is that of ITS line's first token;   *)
(* the scan starts at the last line of the file and walks back to the line *)
(* of the colon that ends the header; a line indented deeper than the      *)
(* header joins the block, any other line empties it (Coded).              *)
(* Reference: the suite is the maximal run of lines directly below the     *)
(* header's last line that are indented deeper than the header (Ref).      *)
(* TLC checks Coded = Ref for every line sequence up to MaxLines over      *)
(* MaxInd indentation levels and every header in it, that suites nest, and *)
(* that a suite never contains a line of the header.  Every state is       *)
(* replayed into the real extract_blocks on synthetic tokens               *)
(* (vf/props/c01.py, phase P).                                             *)
(***************************************************************************)
EXTENDS Naturals, Sequences, FiniteSets, TLC
CONSTANTS MaxLines, MaxInd

Kinds == {"def", "defopen", "cont", "code"}
Line(i, k) == <<i, k>>
VARIABLES ls, exp
vars == <<ls, exp>>
(* well-formed: "cont" only directly after "defopen" / "cont"; every "defopen" is followed by at least one "cont" *)
WellFormed(s) == /\ \A i \in 1..Len(s) : s[i][2] = "cont" => (i > 1 /\ s[i - 1][2] \in {"defopen", "cont"})
                 /\ \A i \in 1..Len(s) : s[i][2] = "defopen" => (i < Len(s) /\ s[i + 1][2] = "cont")
Headers(s) == { i \in 1..Len(s) : s[i][2] \in {"def", "defopen"} }
(* the line of the colon that ends header h (_header_end_line_nr) *)
RECURSIVE LastCont(_, _)
LastCont(s, i) == IF i < Len(s) /\ s[i + 1][2] = "cont" THEN LastCont(s, i + 1) ELSE i
HeaderEnd(s, h) == IF s[h][2] = "def" THEN h ELSE LastCont(s, h)
(* as coded: walk back from the last line; deeper lines join, any other line empties the block *)
RECURSIVE Scan(_, _, _, _, _)
Scan(s, h, stop, i, acc) == IF i <= stop THEN acc
                            ELSE IF s[i][1] > s[h][1] THEN Scan(s, h, stop, i - 1, TLCEval(acc \cup {i}))
                            ELSE Scan(s, h, stop, i - 1, {})
Coded(s, h) == Scan(s, h, HeaderEnd(s, h), Len(s), {})
(* reference: the maximal run of deeper lines directly below the header *)
RECURSIVE Run(_, _, _)
Run(s, h, i) == IF i <= Len(s) /\ s[i][1] > s[h][1] THEN {i} \cup Run(s, h, i + 1) ELSE {}
Ref(s, h) == Run(s, h, HeaderEnd(s, h) + 1)

(* ghost for the replay: per header (in order) the first and last line of its block as coded, <<0, 0>> for none *)
MinOf(S) == CHOOSE x \in S : \A y \in S : x <= y
MaxOf(S) == CHOOSE x \in S : \A y \in S : y <= x
RECURSIVE HeadersFrom(_, _)
HeadersFrom(s, i) == IF i > Len(s) THEN <<>> ELSE (IF s[i][2] \in {"def", "defopen"} THEN <<i>> ELSE <<>>) \o HeadersFrom(s, i + 1)
Expected(s) == IF ~WellFormed(s) THEN <<>>
               ELSE LET hs == HeadersFrom(s, 1) IN
                    [ k \in 1..Len(hs) |-> LET c == Coded(s, hs[k]) IN IF c = {} THEN <<hs[k], 0, 0>> ELSE <<hs[k], MinOf(c), MaxOf(c)>> ]
Init == ls = <<>> /\ exp = <<>>
Next == /\ Len(ls) < MaxLines
        /\ \E i \in 0..MaxInd, k \in Kinds : ls' = Append(ls, Line(i, k))
        \* prune prefixes that can no longer become well-formed: a "cont" needs an open header in front of it
        /\ (ls'[Len(ls')][2] = "cont" => (Len(ls) > 0 /\ ls[Len(ls)][2] \in {"defopen", "cont"}))
        /\ (Len(ls) > 0 /\ ls[Len(ls)][2] = "defopen" => ls'[Len(ls')][2] = "cont")
        /\ exp' = Expected(ls')
Spec == Init /\ [][Next]_vars

Complete == WellFormed(ls)
CodedIsRef == Complete => \A h \in Headers(ls) : Coded(ls, h) = Ref(ls, h)
SuiteBelowHeader == Complete => \A h \in Headers(ls) : \A i \in Coded(ls, h) : i > HeaderEnd(ls, h)
SuiteIsInterval == Complete => \A h \in Headers(ls) : \A i, j \in Coded(ls, h) : \A k \in i..j : k \in Coded(ls, h)
(* the header a continuation line belongs to *)
RECURSIVE HeaderOf(_, _)
HeaderOf(s, i) == IF s[i][2] = "cont" THEN HeaderOf(s, i - 1) ELSE i
(* conventional layout: a continuation line is indented deeper than the line its header starts on *)
Conventional(s) == \A i \in 1..Len(s) : s[i][2] = "cont" => s[i][1] > s[HeaderOf(s, i)][1]
(* suites nest: a header inside a suite has its own suite inside it.  Holds for conventional layouts only: the  *)
(* code looks at the indentation of every line, also of lines inside open brackets, where Python does not care. *)
(* TLC's counterexample to the unrestricted statement (SuitesNestAnyLayout, not in any configuration):          *)
(*   def outer():  /  def inner(a,  / b):  /  return a       with `b):` left of `def inner`                       *)
SuitesNestAnyLayout == Complete => \A h1, h2 \in Headers(ls) : (h2 \in Coded(ls, h1) /\ ls[h2][1] > ls[h1][1]) =>
                          \A i \in Coded(ls, h2) : i \in Coded(ls, h1)
SuitesNest == (Complete /\ Conventional(ls)) => \A h1, h2 \in Headers(ls) : (h2 \in Coded(ls, h1) /\ ls[h2][1] > ls[h1][1]) =>
                 \A i \in Coded(ls, h2) : i \in Coded(ls, h1)
=============================================================================
