----------------------------- MODULE NestedCases -----------------------------
(***************************************************************************)
(* Generator (role G) for get_headers: one state per (pattern, followed_by, *)
(* word) with the ghost v = the headers the recursive definition Hdr of     *)
(* NestedSearch.tla yields (NestedSearch's invariant HIsRef says the coded  *)
(* loop computes exactly this set, sorted by start) and n = does some       *)
(* header lie inside a candidate that is not followed by a body.  The word  *)
(* grows letter by letter so that every prefix is a state too.              *)
(***************************************************************************)
EXTENDS Regex, TLC
CONSTANTS Sigma, MaxSize, MaxLen, FbSize

NoFb == <<"none">>
VARIABLES re, fb, w, v, n
vars == <<re, fb, w, v, n>>

FollowedOK(f, u, e) == IF f = NoFb THEN TRUE ELSE ShortestPrefix(f, Sub(u, e, Len(u))) > 0
Shift(ms, d) == [ i \in 1..Len(ms) |-> <<ms[i][1] + d, ms[i][2] + d>> ]
FindIn(r, u, lo, hi) == Shift(SearchRef(r, Sub(u, lo, hi)), lo)
RECURSIVE Hdr(_, _, _, _, _)
Hdr(r, f, u, lo, hi) == LET ms == FindIn(r, u, lo, hi) IN
  UNION { IF FollowedOK(f, u, ms[i][2]) THEN {ms[i]}
          ELSE IF ms[i][2] - ms[i][1] > 1 THEN Hdr(r, f, u, ms[i][1] + 1, ms[i][2]) ELSE {} : i \in 1..Len(ms) }
RECURSIVE SortByStart(_)
SortByStart(S) == IF S = {} THEN <<>>
                  ELSE LET m == CHOOSE m \in S : \A o \in S : m[1] <= o[1] IN <<m>> \o SortByStart(S \ {m})
Top(r, f, u) == { m \in { FindIn(r, u, 0, Len(u))[i] : i \in 1..Len(FindIn(r, u, 0, Len(u))) } : FollowedOK(f, u, m[2]) }
Verdict(r, f, u) == SortByStart(Hdr(r, f, u, 0, Len(u)))
Nested(r, f, u) == Hdr(r, f, u, 0, Len(u)) # Top(r, f, u)

Init == /\ re \in { r \in AllAST(Sigma, MaxSize) : ~Nullable(r) }
        /\ fb \in {NoFb} \cup AllAST(Sigma, FbSize)
        /\ w = <<>> /\ v = <<>> /\ n = FALSE
Next == /\ Len(w) < MaxLen
        /\ \E a \in Sigma : w' = Append(w, a)
        /\ v' = Verdict(re, fb, w') /\ n' = Nested(re, fb, w')
        /\ UNCHANGED <<re, fb>>
Spec == Init /\ [][Next]_vars
(* sanity of the oracle (non-vacuity and soundness of the ghost) *)
RefIsSound == /\ InBounds(w, v) /\ AreWords(re, w, v) /\ OrderedDisjoint(v)
              /\ \A i \in 1..Len(v) : FollowedOK(fb, w, v[i][2])
=============================================================================
