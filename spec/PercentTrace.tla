--------------------------- MODULE PercentTrace ---------------------------
(***************************************************************************)
(* Acceptor (role A) for C19: one event per profile fed to the real code:  *)
(*   {id, p, fn: <<easy, verbose, hard, unm>> from quality_profile_        *)
(*    percentage(), figs: <<<<ev, h, u>>, ...>> one triple per renderer    *)
(*    that printed the summary, necessary: <<BOOLEAN, ...>> what each      *)
(*    renderer's verdict sentence says, exc}                               *)
(* Accepted against PercentOK / VerdictOK (the property), NOT against Algo *)
(* - a different but sane rounding is not an alarm.                        *)
(***************************************************************************)
EXTENDS Percent, Json, IOUtils

Calls == ndJsonDeserialize(IOEnv.TRACE_FILE)
VARIABLE i

Clause(c) ==
  CASE c.exc # "" -> "NormalReturn"
    [] FirstFailing(c.p, Shown(c.fn)) # "none" -> FirstFailing(c.p, Shown(c.fn))
    [] \E k \in 1..Len(c.figs) : c.figs[k] # Shown(c.fn) -> "RenderersShowTheComputedFigures"
    [] \E k \in 1..Len(c.necessary) : ~VerdictOK(Shown(c.fn), c.necessary[k]) -> "Verdict"
    [] OTHER -> "none"

TInit == i = 1
TNext == /\ i <= Len(Calls)
         /\ LET cl == Clause(Calls[i]) IN
              IF cl = "none" THEN TRUE ELSE PrintT(<<"REJECT", Calls[i].id, cl>>)
         /\ i' = i + 1
         /\ UNCHANGED <<prof, out>>
TSpec == TInit /\ prof = <<0, 0, 0, 0>> /\ out = <<100, 0, 0, 0>> /\ [][TNext]_<<i, prof, out>>
AllConsumed == TLCGet("stats").diameter - 1 = Len(Calls)
=============================================================================
