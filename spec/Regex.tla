------------------------------- MODULE Regex -------------------------------
(***************************************************************************)
(* Reference semantics of the pattern language of codelimit's "gsm" engine *)
(* (codelimit/common/gsm).  This module is the ORACLE of C13 and C14: it   *)
(* says what must be true, not how the code gets there.                    *)
(*                                                                         *)
(* Syntax.  The code's Expression is a non-empty list of items; an item is *)
(* an atom (a predicate) or Optional/ZeroOrMore/OneOrMore(expression) or   *)
(* Union(expression, expression).  Here a pattern is a tree                *)
(*     <<"atom", a>>  <<"seq", l, r>>  <<"alt", l, r>>                      *)
(*     <<"opt", r>>   <<"star", r>>    <<"plus", r>>                        *)
(* where "seq" is kept right-nested (its left child is never a "seq"), so  *)
(* every tree corresponds to exactly one list-shaped Expression            *)
(* (vf/gsm_bind.py: to_expression).  Atoms are letters of Sigma; distinct   *)
(* letters are pairwise-disjoint predicates (Identity over distinct items).*)
(***************************************************************************)
EXTENDS Naturals, Sequences, FiniteSets

(* AST(Sigma, n): all patterns with exactly n items, an item being an atom or an  *)
(* operator other than sequencing (sequencing is the list itself and is free)     *)
RECURSIVE AST(_, _)
AST(Sigma, n) ==
  IF n = 0 THEN {}
  ELSE LET at  == IF n = 1 THEN { <<"atom", a>> : a \in Sigma } ELSE {}
           un  == { <<op, r>> : op \in {"opt", "star", "plus"}, r \in AST(Sigma, n - 1) }
           alt == UNION { { <<"alt", l, r>> : l \in AST(Sigma, k), r \in AST(Sigma, n - 1 - k) }
                          : k \in 1..(n - 2) }
           sq  == UNION { { <<"seq", l, r>> : l \in { x \in AST(Sigma, k) : x[1] # "seq" },
                                             r \in AST(Sigma, n - k) }
                          : k \in 1..(n - 1) }
       IN  at \cup un \cup alt \cup sq

AllAST(Sigma, N) == UNION { AST(Sigma, n) : n \in 1..N }

RECURSIVE Size(_)
Size(r) == CASE r[1] = "atom" -> 1
             [] r[1] = "seq" -> Size(r[2]) + Size(r[3])
             [] r[1] = "alt" -> 1 + Size(r[2]) + Size(r[3])
             [] OTHER -> 1 + Size(r[2])

RECURSIVE Nullable(_)
Nullable(r) == CASE r[1] = "atom" -> FALSE
                 [] r[1] = "seq"  -> Nullable(r[2]) /\ Nullable(r[3])
                 [] r[1] = "alt"  -> Nullable(r[2]) \/ Nullable(r[3])
                 [] r[1] \in {"opt", "star"} -> TRUE
                 [] r[1] = "plus" -> Nullable(r[2])

(* a repetition whose body can match the empty sequence ("patterns that can *)
(* match nothing" in C13) - the shape on which a naive closure diverges      *)
RECURSIVE HasNullableRepetition(_)
HasNullableRepetition(r) ==
  CASE r[1] = "atom" -> FALSE
    [] r[1] \in {"seq", "alt"} -> HasNullableRepetition(r[2]) \/ HasNullableRepetition(r[3])
    [] r[1] = "opt" -> HasNullableRepetition(r[2])
    [] r[1] \in {"star", "plus"} -> Nullable(r[2]) \/ HasNullableRepetition(r[2])

(* InL(r, w): w belongs to the regular language of r *)
RECURSIVE InL(_, _)
InL(r, w) ==
  CASE r[1] = "atom" -> w = <<r[2]>>
    [] r[1] = "seq"  -> \E k \in 0..Len(w) : InL(r[2], SubSeq(w, 1, k)) /\ InL(r[3], SubSeq(w, k + 1, Len(w)))
    [] r[1] = "alt"  -> InL(r[2], w) \/ InL(r[3], w)
    [] r[1] = "opt"  -> w = <<>> \/ InL(r[2], w)
    [] r[1] = "star" -> w = <<>> \/ \E k \in 1..Len(w) : InL(r[2], SubSeq(w, 1, k)) /\ InL(r, SubSeq(w, k + 1, Len(w)))
    [] r[1] = "plus" -> \E k \in 0..Len(w) : InL(r[2], SubSeq(w, 1, k)) /\ InL(<<"star", r[2]>>, SubSeq(w, k + 1, Len(w)))

(* Viable(r, u): u is a prefix of some word of L(r) *)
RECURSIVE Viable(_, _)
Viable(r, u) ==
  CASE r[1] = "atom" -> u = <<>> \/ u = <<r[2]>>
    [] r[1] = "seq"  -> Viable(r[2], u) \/ \E k \in 0..Len(u) : InL(r[2], SubSeq(u, 1, k)) /\ Viable(r[3], SubSeq(u, k + 1, Len(u)))
    [] r[1] = "alt"  -> Viable(r[2], u) \/ Viable(r[3], u)
    [] r[1] = "opt"  -> Viable(r[2], u)
    [] r[1] \in {"star", "plus"} ->
         Viable(r[2], u) \/ \E k \in 1..Len(u) : InL(r[2], SubSeq(u, 1, k)) /\ Viable(r, SubSeq(u, k + 1, Len(u)))

(* prefix matching: length of the shortest non-empty prefix in L(r); 0 if none *)
ShortestPrefix(r, w) ==
  LET ks == { k \in 1..Len(w) : InL(r, SubSeq(w, 1, k)) }
  IN  IF ks = {} THEN 0 ELSE CHOOSE k \in ks : \A j \in ks : k <= j

(***************************************************************************)
(* Search (C14).  Positions are 0-based, ranges half-open, as in the code. *)
(***************************************************************************)
Sub(w, s, e) == SubSeq(w, s + 1, e)

(* greedy matching from s consumes while the consumed part stays viable *)
GreedyEnd(r, w, s) ==
  LET ks == { k \in s..Len(w) : Viable(r, Sub(w, s, k)) }
  IN  CHOOSE k \in ks : \A j \in ks : j <= k
GreedySucceeds(r, w, s) == s < Len(w) /\ InL(r, Sub(w, s, GreedyEnd(r, w, s)))

(* the reference result: leftmost greedy, non-overlapping *)
RECURSIVE SearchFrom(_, _, _)
SearchFrom(r, w, s) ==
  IF s >= Len(w) THEN <<>>
  ELSE IF GreedySucceeds(r, w, s) /\ GreedyEnd(r, w, s) > s
       THEN <<<<s, GreedyEnd(r, w, s)>>>> \o SearchFrom(r, w, GreedyEnd(r, w, s))
       ELSE SearchFrom(r, w, s + 1)
SearchRef(r, w) == SearchFrom(r, w, 0)

(* the clauses of C14, each separately named, over a result ms = <<<<start, end>>, ...>> *)
InBounds(w, ms)    == \A i \in 1..Len(ms) : 0 <= ms[i][1] /\ ms[i][1] < ms[i][2] /\ ms[i][2] <= Len(w)
AreWords(r, w, ms) == \A i \in 1..Len(ms) : InL(r, Sub(w, ms[i][1], ms[i][2]))
AreLongest(r, w, ms) == \A i \in 1..Len(ms) : ms[i][2] = GreedyEnd(r, w, ms[i][1])
OrderedDisjoint(ms) == \A i \in 1..(Len(ms) - 1) : ms[i][2] <= ms[i + 1][1]
Complete(r, w, ms) == \A s \in 0..(Len(w) - 1) :
                        GreedySucceeds(r, w, s) => \E i \in 1..Len(ms) : ms[i][1] <= s /\ s < ms[i][2]
(* Eviction (defect F10-C14, repaired by d7bef04): position s is left uncovered although   *)
(* greedy matching succeeds there, because a reported match that starts later lies inside  *)
(* its greedy span. Kept as a sub-classification of the Complete clause: both names are    *)
(* violations, the second one tells the reader that the old defect has come back.          *)
Covered(ms, s) == \E i \in 1..Len(ms) : ms[i][1] <= s /\ s < ms[i][2]
Evicted(r, w, ms, s) == /\ GreedySucceeds(r, w, s) /\ ~Covered(ms, s)
                        /\ \E i \in 1..Len(ms) : s < ms[i][1] /\ ms[i][2] <= GreedyEnd(r, w, s)
CompleteUpToEviction(r, w, ms) == \A s \in 0..(Len(w) - 1) :
                                    GreedySucceeds(r, w, s) => Covered(ms, s) \/ Evicted(r, w, ms, s)
SearchOK(r, w, ms) == InBounds(w, ms) /\ AreWords(r, w, ms) /\ AreLongest(r, w, ms)
                      /\ OrderedDisjoint(ms) /\ Complete(r, w, ms)
FirstFailingSearchClause(r, w, ms) ==
  CASE ~InBounds(w, ms) -> "InBounds"
    [] ~AreWords(r, w, ms) -> "AreWords"
    [] ~AreLongest(r, w, ms) -> "AreLongest"
    [] ~OrderedDisjoint(ms) -> "OrderedDisjoint"
    [] ~CompleteUpToEviction(r, w, ms) -> "Complete"
    [] ~Complete(r, w, ms) -> "Complete:EvictedByEnclosedMatch"
    [] OTHER -> "none"
=============================================================================
