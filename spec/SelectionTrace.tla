--------------------------- MODULE SelectionTrace ---------------------------
(***************************************************************************)
(* Acceptor (role A) for C11 / C12: recorded scans / checks of real trees. *)
(*  scan  event: {id, kind: "scan", pats, present: <<paths>>, got:          *)
(*                <<paths>>, meta_ok, exc}                                   *)
(*        got must be exactly the contributing paths among `present`        *)
(*        (each once), with the right language and checksum (meta_ok).      *)
(*  check event: {id, kind: "check", pats, present, target_kind, target,    *)
(*                checked: <<paths>>, same_as_scan, exc}                     *)
(*        a directory target: the files check looked at are exactly the     *)
(*        contributing files beneath it; a relative file target: checked    *)
(*        iff not excluded and supported (a hidden file named directly is   *)
(*        unconstrained); same_as_scan: what it listed for each file is     *)
(*        what scan measures for it above 30 lines.                         *)
(***************************************************************************)
EXTENDS Selection, Json, IOUtils

Calls == ndJsonDeserialize(IOEnv.TRACE_FILE)
VARIABLE i

SeqSet(s) == { s[k] : k \in 1..Len(s) }
PSet(c) == SeqSet(c.pats)
ScanClause(c) ==
  LET want == { p \in SeqSet(c.present) : Contributes(p, PSet(c)) } IN
  CASE c.exc # "" -> "NormalReturn"
    [] Len(c.got) # Cardinality(SeqSet(c.got)) -> "EachFileOnce"
    [] \E p \in SeqSet(c.got) : p \notin SeqSet(c.present) -> "OnlyFilesUnderTheRoot"
    [] \E p \in SeqSet(c.got) : Hidden(p) -> "HiddenNeverAnalysed"
    [] \E p \in SeqSet(c.got) : Excluded(p, PSet(c)) -> "ExcludedNeverAnalysed"
    [] \E p \in SeqSet(c.got) : ~SupportedFile(p) -> "UnsupportedNeverAnalysed"
    [] \E p \in want : p \notin SeqSet(c.got) -> "EveryContributingFileAnalysed"
    [] ~c.meta_ok -> "KeyLanguageChecksum"
    [] OTHER -> "none"
CheckClause(c) ==
  LET got == SeqSet(c.checked)  pres == SeqSet(c.present) IN
  CASE c.exc # "" -> "NormalReturn"
    [] c.target_kind = "dir" /\ \E p \in got : Excluded(p, PSet(c)) -> "CheckSkipsExcluded"
    [] c.target_kind = "dir" /\ \E p \in got : Hidden(p) -> "CheckSkipsHiddenBelowDirectory"
    [] c.target_kind = "dir" /\ \E p \in pres : Contributes(p, PSet(c)) /\ IsPrefix(c.target, p) /\ p \notin got -> "CheckLooksAtEveryScannedFile"
    [] c.target_kind = "dir" /\ \E p \in got : ~(IsPrefix(c.target, p) /\ Contributes(p, PSet(c))) -> "CheckLooksOnlyAtScannedFiles"
    [] c.target_kind = "file" /\ MustSkipFile(c.target, PSet(c)) /\ got # {} -> "CheckSkipsExcludedFile"
    [] c.target_kind = "file" /\ MustCheckFile(c.target, PSet(c)) /\ got # {c.target} -> "CheckLooksAtNamedFile"
    [] ~c.same_as_scan -> "CheckListsWhatScanMeasures"
    [] OTHER -> "none"
(* agreement (C12) judged against the recorded scan of the same configuration - no model of the exclusion list *)
(* is involved, so it also covers lists outside the modelled pattern classes (negations)                       *)
AgreeClause(c) ==
  LET got == SeqSet(c.checked)  scanned == SeqSet(c.scanned) IN
  CASE c.exc # "" -> "NormalReturn"
    [] \E p \in scanned : IsPrefix(c.target, p) /\ p \notin got -> "CheckLooksAtEveryFileScanAnalyses"
    [] \E p \in got : ~(IsPrefix(c.target, p) /\ p \in scanned) -> "CheckLooksOnlyAtFilesScanAnalyses"
    [] ~c.same_as_scan -> "CheckListsWhatScanMeasures"
    [] OTHER -> "none"
Clause(c) == IF c.kind = "scan" THEN ScanClause(c) ELSE IF c.kind = "agree" THEN AgreeClause(c) ELSE CheckClause(c)

TInit == i = 1 /\ pats = <<>> /\ src = <<>> /\ rootForm = "absolute" /\ target = "none" /\ sel = {}
TNext == /\ i <= Len(Calls)
         /\ LET cl == Clause(Calls[i]) IN
              IF cl = "none" THEN TRUE ELSE PrintT(<<"REJECT", Calls[i].id, cl>>)
         /\ i' = i + 1 /\ UNCHANGED vars
TSpec == TInit /\ [][TNext]_<<i, pats, src, rootForm, target, sel>>
AllConsumed == TLCGet("stats").diameter - 1 = Len(Calls)
=============================================================================
