--------------------------- MODULE CategoryProof ---------------------------
(* TLAPS-checked lemmas about the length categories (unbounded: for every natural length). *)
EXTENDS Categories, TLAPS

THEOREM CategoryTotal == \A L \in Nat : Category(L) \in 1..4
  BY DEF Category

THEOREM CategoryBoundaries ==
  \A L \in Nat : /\ (Category(L) = 1) <=> (L <= 15)
                 /\ (Category(L) = 2) <=> (16 <= L /\ L <= 30)
                 /\ (Category(L) = 3) <=> (31 <= L /\ L <= 60)
                 /\ (Category(L) = 4) <=> (L > 60)
  BY DEF Category

THEOREM CategoryMonotone == \A L, M \in Nat : L <= M => Category(L) <= Category(M)
  BY DEF Category

THEOREM FindingIffHardOrWorse == \A L \in Nat : (L > 30) <=> (Category(L) >= 3)
  BY DEF Category
=============================================================================
