---------------------------- MODULE PercentProof ----------------------------
(* TLAPS-checked lemmas about the rounding algorithm of Percent.tla, for ALL profiles (unbounded). *)
EXTENDS PercentAlgo, TLAPS

(* whatever the rounded-up figures are, the four figures add up to 100 *)
THEOREM SumIs100 == \A u0, h0, v0 \in Nat : E(u0, h0, v0) + V(u0, h0, v0) + H(u0, h0) + U(u0, h0) = 100
  BY DEF E, V, H, U

(* if each rounded-up figure is at most 100 and the two large ones exceed 100 together by at most one *)
(* (which ceil(x - 0.001) guarantees), every figure stays within 0..100                             *)
THEOREM InRange ==
  \A u0, h0, v0 \in 0..100 : u0 + h0 <= 101 =>
     /\ U(u0, h0) \in 0..100 /\ H(u0, h0) \in 0..100
     /\ V(u0, h0, v0) \in 0..100 /\ E(u0, h0, v0) \in 0..100
     /\ U(u0, h0) + H(u0, h0) <= 100
  BY DEF E, V, H, U

(* giving a point back never turns a positive figure into zero *)
THEOREM NonZeroKept ==
  \A u0, h0 \in 0..100 : u0 + h0 <= 101 => ((u0 > 0 => U(u0, h0) > 0) /\ (h0 > 0 => H(u0, h0) > 0))
  BY DEF H, U
=============================================================================
