----------------------------- MODULE EditTrace -----------------------------
(***************************************************************************)
(* Acceptor (role A) for C04 and C17.  One event per (base text, edit      *)
(* script, edited text):                                                   *)
(*  {id, prop, base: <<meas..>>, script: <<[k, at, style]..>> in original   *)
(*   line coordinates, marked: <<name ids>>, got: <<meas..>>, exc}          *)
(* with meas = [name, sl, sc, el, ec, len] as scan_file reported them.     *)
(* C04: got must be Shift(base, script) on names, order, lengths and line  *)
(*      numbers (columns are not part of C04).                             *)
(* C17: got must be Visible(Shift(base, script), marked), full tuples.     *)
(***************************************************************************)
EXTENDS Edits, Json, IOUtils

Calls == ndJsonDeserialize(IOEnv.TRACE_FILE)
VARIABLE i

NoCols(m) == [name |-> m.name, sl |-> m.sl, el |-> m.el, len |-> m.len]
C04Clause(c) ==
  LET want == Shift(c.base, c.script)  got == c.got IN
  CASE c.exc # "" -> "NormalReturn"
    [] Len(got) # Len(want) -> "SameFunctions"
    [] \E k \in 1..Len(want) : got[k].name # want[k].name -> "NamesAndOrderUnchanged"
    [] \E k \in 1..Len(want) : got[k].len # want[k].len -> "LengthsUnchanged"
    [] \E k \in 1..Len(want) : got[k].sl # want[k].sl -> "StartLineShiftsByInsertedLinesAbove"
    [] \E k \in 1..Len(want) : got[k].el # want[k].el -> "EndLineShiftsByInsertedLinesAbove"
    [] OTHER -> "none"
MarkedSet(c) == { c.marked[k] : k \in 1..Len(c.marked) }
C17Clause(c) ==
  LET want == Visible(Shift(c.base, c.script), MarkedSet(c))  got == c.got IN
  CASE c.exc # "" -> "NormalReturn"
    [] \E k \in 1..Len(got) : got[k].name \in MarkedSet(c) -> "MarkedFunctionOmitted"
    [] Len(got) # Len(want) -> "OnlyMarkedFunctionsOmitted"
    [] \E k \in 1..Len(want) : got[k] # want[k] -> "OthersKeepNameSpanLength"
    [] OTHER -> "none"
Clause(c) == IF c.prop = "C17" THEN C17Clause(c) ELSE C04Clause(c)

TInit == i = 1 /\ script = <<>>
TNext == /\ i <= Len(Calls)
         /\ LET cl == Clause(Calls[i]) IN
              IF cl = "none" THEN TRUE ELSE PrintT(<<"REJECT", Calls[i].id, cl>>)
         /\ i' = i + 1 /\ UNCHANGED script
TSpec == TInit /\ [][TNext]_<<i, script>>
AllConsumed == TLCGet("stats").diameter - 1 = Len(Calls)
=============================================================================
