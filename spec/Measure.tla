------------------------------ MODULE Measure ------------------------------
(***************************************************************************)
(* C05 - every reported measurement is well-formed, for every input.       *)
(* Reference only (no variables): WellFormed over                          *)
(*   nlines, linelen[l]     the file's lines and their lengths             *)
(*   toks[i] = [l, c, el, ec, name]   kept code tokens: start position,    *)
(*             position just past the token (from its text, so multi-line  *)
(*             tokens are handled), its text if it is an identifier else ""*)
(*   meas[j] = [name, sl, sc, el, ec, len]                                 *)
(* one separately named conjunct per clause of the property.               *)
(***************************************************************************)
EXTENDS Naturals, Sequences, FiniteSets

Before(l1, c1, l2, c2) == l1 < l2 \/ (l1 = l2 /\ c1 < c2)
AtOrBefore(l1, c1, l2, c2) == l1 < l2 \/ (l1 = l2 /\ c1 <= c2)

LinesOK(nlines, m) == 1 <= m.sl /\ m.sl <= m.el /\ m.el <= nlines
ColumnsOK(linelen, m) == /\ 1 <= m.sc /\ m.sc <= linelen[m.sl] + 1
                         /\ 1 <= m.ec /\ m.ec <= linelen[m.el] + 1
StartsAtToken(toks, m) == \E i \in 1..Len(toks) : toks[i].l = m.sl /\ toks[i].c = m.sc
EndsAfterToken(toks, m) == \E i \in 1..Len(toks) : toks[i].el = m.el /\ toks[i].ec = m.ec
Inside(t, m) == AtOrBefore(m.sl, m.sc, t.l, t.c) /\ AtOrBefore(t.el, t.ec, m.el, m.ec)
NameInside(toks, m) == \E i \in 1..Len(toks) : toks[i].name = m.name /\ toks[i].name # "" /\ Inside(toks[i], m)
CodeLines(toks, m) == { toks[i].l : i \in { j \in 1..Len(toks) : Inside(toks[j], m) } }
LengthBounds(toks, m) == 1 <= m.len /\ m.len <= Cardinality(CodeLines(toks, m))
SourceOrder(meas) == \A j \in 1..(Len(meas) - 1) : Before(meas[j].sl, meas[j].sc, meas[j + 1].sl, meas[j + 1].sc)

FirstFailing(nlines, linelen, toks, meas) ==
  CASE \E j \in 1..Len(meas) : ~LinesOK(nlines, meas[j]) -> "Lines"
    [] \E j \in 1..Len(meas) : ~ColumnsOK(linelen, meas[j]) -> "Columns"
    [] \E j \in 1..Len(meas) : ~StartsAtToken(toks, meas[j]) -> "StartsAtToken"
    [] \E j \in 1..Len(meas) : ~EndsAfterToken(toks, meas[j]) -> "EndsAfterToken"
    [] \E j \in 1..Len(meas) : ~NameInside(toks, meas[j]) -> "NameInside"
    [] \E j \in 1..Len(meas) : ~LengthBounds(toks, meas[j]) -> "LengthBounds"
    [] ~SourceOrder(meas) -> "SourceOrderDistinctStarts"
    [] OTHER -> "none"
=============================================================================
