--------------------------- MODULE MeasureTrace ---------------------------
(***************************************************************************)
(* Acceptor (role A) for C03 and C05.  Events:                             *)
(*  kind "scan_file": {id, exc, nlines, linelen, toks, meas}  - a normal   *)
(*        return is the only accepted outcome (C03); the list must be      *)
(*        well-formed (C05, Measure.tla).                                  *)
(*  kind "scan_path": {id, exc, locs: <<file loc>>, sums: <<sum of the      *)
(*        file's function lengths>>, report_written}                       *)
(*  kind "check":     {id, exc, exit}   exit status must be 0 or 1         *)
(* exc # "" (exception class, "timeout", or "exit:<n>") has no matching    *)
(* action: rejected with clause NormalReturn.                              *)
(***************************************************************************)
EXTENDS Measure, TLC, Json, IOUtils

Calls == ndJsonDeserialize(IOEnv.TRACE_FILE)
VARIABLE i

Clause(c) ==
  CASE c.exc # "" -> "NormalReturn"
    [] c.kind = "scan_file" -> FirstFailing(c.nlines, c.linelen, c.toks, c.meas)
    [] c.kind = "scan_path" -> IF ~c.report_written THEN "ReportWritten"
                               ELSE IF \E k \in 1..Len(c.locs) : c.locs[k] # c.sums[k] THEN "FileTotalIsSumOfLengths" ELSE "none"
    [] c.kind = "check" -> IF c.exit \in {0, 1} THEN "none" ELSE "ExitStatus0or1"
    [] OTHER -> "UnknownEvent"

Init == i = 1
Next == /\ i <= Len(Calls)
        /\ LET cl == Clause(Calls[i]) IN
             IF cl = "none" THEN TRUE ELSE PrintT(<<"REJECT", Calls[i].id, cl>>)
        /\ i' = i + 1
Spec == Init /\ [][Next]_i
AllConsumed == TLCGet("stats").diameter - 1 = Len(Calls)
=============================================================================
