-------------------------- MODULE ThresholdTrace --------------------------
(***************************************************************************)
(* Acceptor (role A) for C02: one event per length L fed to every place in *)
(* the code that re-implements the comparison; the event carries what each *)
(* place said and TLC checks every one against Category(L):                *)
(*  {id, L, profile_cat, count_cat, lang_hard, lang_unm, style, emoji,     *)
(*   unit_colour, fm_colour, fm_symbol, cr_hard, cr_unm, in_units30,       *)
(*   in_text_findings, in_md_findings, md_glyph, exc}                      *)
(***************************************************************************)
EXTENDS Thresholds, Json, IOUtils

Calls == ndJsonDeserialize(IOEnv.TRACE_FILE)
VARIABLE i

(* a place that no longer exists under its name (internal helper renamed / removed) is listed in   *)
(* c.skip by the harness and not judged: the property is about behaviour, not about helper names *)
Has(c, place) == \A k \in 1..Len(c.skip) : c.skip[k] # place
Clause(c) ==
  LET L == c.L IN
  CASE c.exc # "" -> "NormalReturn"
    [] Has(c, "make_profile") /\ c.profile_cat # Category(L) -> "make_profile"
    [] Has(c, "make_count_profile") /\ c.count_cat # Category(L) -> "make_count_profile"
    [] Has(c, "LanguageTotals") /\ c.lang_hard # (IF Category(L) = 3 THEN 1 ELSE 0) -> "LanguageTotals.hard_to_maintain"
    [] Has(c, "LanguageTotals") /\ c.lang_unm # (IF Category(L) = 4 THEN 1 ELSE 0) -> "LanguageTotals.unmaintainable"
    [] Has(c, "get_style_for_measurement") /\ c.style # Colour(L) -> "get_style_for_measurement"
    [] Has(c, "get_emoji_for_measurement") /\ c.emoji # Symbol(L) -> "get_emoji_for_measurement"
    [] Has(c, "format_unit") /\ c.unit_colour # Colour(L) -> "format_unit"
    [] Has(c, "format_measurement") /\ c.fm_colour # Colour(L) -> "format_measurement.colour"
    [] Has(c, "format_measurement") /\ c.fm_symbol # Symbol(L) -> "format_measurement.symbol"
    [] Has(c, "CheckResult") /\ c.cr_hard # (IF Category(L) = 3 THEN 1 ELSE 0) -> "CheckResult.hard_to_maintain"
    [] Has(c, "CheckResult") /\ c.cr_unm # (IF Category(L) = 4 THEN 1 ELSE 0) -> "CheckResult.unmaintainable"
    [] c.in_units30 # IsFinding(L) -> "Report.all_report_units(30)"
    [] c.in_text_findings # IsFinding(L) -> "format_text.print_findings"
    [] c.in_md_findings # IsFinding(L) -> "format_markdown.print_findings"
    [] IsFinding(L) /\ c.md_glyph # Symbol(L) -> "format_markdown.glyph"
    [] OTHER -> "none"

TInit == i = 1 /\ funcs = <<>> /\ exp = Expected(<<>>)
TNext == /\ i <= Len(Calls)
         /\ LET cl == Clause(Calls[i]) IN
              IF cl = "none" THEN TRUE ELSE PrintT(<<"REJECT", Calls[i].id, cl>>)
         /\ i' = i + 1 /\ UNCHANGED vars
TSpec == TInit /\ [][TNext]_<<i, funcs, exp>>
AllConsumed == TLCGet("stats").diameter - 1 = Len(Calls)
=============================================================================
